import VsbModel.Lemmas.FsView
import VsbModel.Lemmas.RestoreSingle
import VsbModel.Model.Logical
set_option linter.unusedSimpArgs false
set_option linter.unusedSectionVars false
set_option linter.unusedVariables false

/-!
Restoring a backup with deduplicated content: execution of a plan that satisfies `PlanFacts`
(the target backup's own step with fan-outs inside the backup, then one step per earlier backup that
supplies bytes), in the function view of the target file system.
-/
namespace Vsb.Restore
variable {H β : Type} [DecidableEq H]

/-! ### generic facts -/

theorem nodup_flatMap_disjoint {α γ : Type} (f : α → List γ) (l : List α) (hn : (l.flatMap f).Nodup)
    (a b : α) (ha : a ∈ l) (hb : b ∈ l) (x : γ) (hxa : x ∈ f a) (hxb : x ∈ f b) : a = b := by
  induction l with
  | nil => cases ha
  | cons h t ih =>
    simp only [List.flatMap_cons] at hn
    have hd := (List.nodup_append.mp hn)
    rcases List.mem_cons.mp ha with rfl | ha'
    · rcases List.mem_cons.mp hb with rfl | hb'
      · rfl
      · exfalso
        exact hd.2.2 x hxa x (List.mem_flatMap.mpr ⟨b, hb', hxb⟩) rfl
    · rcases List.mem_cons.mp hb with rfl | hb'
      · exfalso
        exact hd.2.2 x hxb x (List.mem_flatMap.mpr ⟨a, ha', hxa⟩) rfl
      · exact ih hd.2.1 ha' hb'

theorem nodup_flatMap_inner {α γ : Type} (f : α → List γ) (l : List α) (hn : (l.flatMap f).Nodup)
    (a : α) (ha : a ∈ l) : (f a).Nodup := by
  induction l with
  | nil => cases ha
  | cons h t ih =>
    simp only [List.flatMap_cons] at hn
    have hd := (List.nodup_append.mp hn)
    rcases List.mem_cons.mp ha with rfl | ha'
    · exact hd.1
    · exact ih hd.2.1 ha'

/-- In a well-formed archive every proper ancestor of an entry is a directory entry. -/
theorem ancestors_are_dirs (es : List (Entry β)) (wf : WFArchive es) :
    ∀ (n : Nat) (e : Entry β), e ∈ es → (fpOf e).length ≤ n → ∀ k, 0 < k → k < (fpOf e).length →
      ∃ d ∈ es, d.isDir = true ∧ fpOf d = (fpOf e).take k := by
  intro n
  induction n with
  | zero => intro e _ hl k h1 h2; omega
  | succ n ih =>
    intro e he hl k h1 h2
    obtain ⟨pre, post, hsplit⟩ := List.append_of_mem he
    rcases wf.parents pre e post hsplit with h0 | ⟨d, hd, hdir, hfp⟩
    · exfalso
      have : (fpOf e).dropLast.length = (fpOf e).length - 1 := List.length_dropLast
      rw [h0] at this
      simp only [List.length_nil] at this
      omega
    · have hdes : d ∈ es := by rw [hsplit]; exact List.mem_append_left _ hd
      have hlen : (fpOf d).length = (fpOf e).length - 1 := by rw [hfp]; exact List.length_dropLast
      by_cases hk : k = (fpOf e).length - 1
      · refine ⟨d, hdes, hdir, ?_⟩
        rw [hfp, hk, List.dropLast_eq_take]
      · obtain ⟨d', hd', hdir', hfp'⟩ := ih d hdes (by omega) k h1 (by omega)
        refine ⟨d', hd', hdir', ?_⟩
        rw [hfp', hfp, List.dropLast_eq_take, List.take_take]
        congr 1
        omega

theorem pps_are_dirs (es : List (Entry β)) (wf : WFArchive es) (e : Entry β) (he : e ∈ es) (q : FPath)
    (hq : q ∈ pps [] (fpOf e)) : ∃ d ∈ es, d.isDir = true ∧ fpOf d = q := by
  obtain ⟨k, h1, h2, rfl⟩ := (mem_pps (fpOf e) [] q).mp hq
  simpa using ancestors_are_dirs es wf _ e he (Nat.le_refl _) k h1 h2

theorem fpOf_strip (stored : String → Bool) (pad : String → List β) (e : Entry β) : fpOf (stripE stored pad e) = fpOf e := by
  cases e <;> rfl

/-- Entries of a well-formed archive are determined by their path. -/
theorem entry_of_fp (es : List (Entry β)) (wf : WFArchive es) (a b : Entry β) (ha : a ∈ es) (hb : b ∈ es)
    (h : fpOf a = fpOf b) : a = b := nodup_map_inj fpOf es wf.nodup a b ha hb h

theorem keyE_inj (es : List (Entry β)) (wf : WFArchive es) (a b : Entry β) (ha : a ∈ es) (hb : b ∈ es)
    (h : keyE a = keyE b) : a = b :=
  entry_of_fp es wf a b ha hb (keyOf_inj_of _ _ (wf.keys a ha) (wf.keys b hb) h)

/-! ### the target backup's own step -/

/-- What the plan's table for the target step looks like (established for `plan` in `Lemmas/PlanFacts`). -/
structure TCtx (hashOf : List β → H) (es : List (Entry β)) (stored : String → Bool)
    (F0 : List (String × RFile H)) (EXT : List String) : Prop where
  wf : WFArchive es
  extNodup : EXT.Nodup
  extComplete : ∀ b ∈ es, isExtE stored b = true → keyE b ∈ EXT
  extOnly : ∀ q ∈ EXT, ∃ b ∈ es, isExtE stored b = true ∧ keyE b = q
  keysNodup : (F0.map (·.1)).Nodup
  f0_keys : ∀ kv ∈ F0, ∃ a ∈ es, isOwnE stored a = true ∧ kv.1 = keyE a ∧ kv.2.hash = hashOf (contentE a) ∧
      kv.2.size = (contentE a).length ∧ ∃ fan, kv.2.paths = fan ++ [kv.1] ∧
        ∀ q ∈ fan, q ∈ EXT ∧ ∃ b ∈ es, isExtE stored b = true ∧ keyE b = q ∧ contentE b = contentE a
  f0_all : ∀ a ∈ es, isOwnE stored a = true → ∃ info, (keyE a, info) ∈ F0
  fansDisjoint : (F0.flatMap (fun kv => kv.2.paths.dropLast)).Nodup

/-- Is the node of entry `e` in the target tree yet? -/
def Present (stored : String → Bool) (pre : List (Entry β)) (preCreated : List FPath) (restored : List String)
    (e : Entry β) : Prop :=
  match e with
  | .dir _ _ => e ∈ pre ∨ fpOf e ∈ preCreated
  | .symlink _ _ _ => e ∈ pre
  | .file _ _ _ => if isExtE stored e = true then keyE e ∈ restored else e ∈ pre
  | .other _ => False

/-- … and what it looks like before the final metadata pass. -/
def nodeT (stored : String → Bool) (e : Entry β) : FNode β :=
  match e with
  | .dir _ _ => .dir none
  | .symlink _ m t => .symlink t m
  | .file _ m d => if isExtE stored e = true then .file d none else .file d (some m)
  | .other _ => .dir none

/-- Metadata deferred to the end: directories, and files whose bytes come from elsewhere. -/
def schedT (stored : String → Bool) (pre : List (Entry β)) : List (FPath × Meta) :=
  pre.filterMap (fun e => match e with
    | .dir _ m => some (fpOf e, m)
    | .file _ m _ => if isExtE stored e = true then some (fpOf e, m) else none
    | _ => none)

structure TInv (stored : String → Bool) (es : List (Entry β)) (F0 : List (String × RFile H)) (EXT : List String)
    (pre : List (Entry β)) (st : RSt β) (seen : List String) : Prop where
  ok : st.ok = true
  missing : st.missing = []
  pendNodup : st.pending.Nodup
  pend : ∀ q, q ∈ st.pending ↔ q ∈ EXT ∧ q ∉ st.restored
  restd : ∀ q ∈ st.restored, ∃ a ∈ pre, ∃ info, (keyE a, info) ∈ F0 ∧ q ∈ info.paths.dropLast
  restd' : ∀ a ∈ pre, ∀ info, (keyE a, info) ∈ F0 → ∀ q ∈ info.paths.dropLast, q ∈ st.restored
  pcNodup : st.preCreated.Nodup
  pc : ∀ q ∈ st.preCreated, ∃ d ∈ es, d ∉ pre ∧ d.isDir = true ∧ fpOf d = q
  sched : st.scheduled = schedT stored pre
  seenOk : ∀ a ∈ pre, isOwnE stored a = true → keyE a ∈ seen
  fsSome : ∀ q n, fsGet st.fs q = some n → ∃ e ∈ es, fpOf e = q ∧ Present stored pre st.preCreated st.restored e ∧ n = nodeT stored e
  fsPresent : ∀ e ∈ es, Present stored pre st.preCreated st.restored e → fsGet st.fs (fpOf e) = some (nodeT stored e)

theorem schedT_snoc (stored : String → Bool) (pre : List (Entry β)) (e : Entry β) :
    schedT stored (pre ++ [e]) = schedT stored pre ++ (schedT stored [e]) := by
  simp [schedT, List.filterMap_append]

/-- In a split `es = pre ++ e :: post` of a well-formed archive, `e` is in neither part. -/
theorem split_notin (es : List (Entry β)) (wf : WFArchive es) (pre : List (Entry β)) (e : Entry β) (post : List (Entry β))
    (hs : es = pre ++ e :: post) : e ∉ pre ∧ ∀ x ∈ pre, fpOf x ≠ fpOf e := by
  have hn := wf.nodup
  rw [hs, List.map_append, List.map_cons] at hn
  have hd := List.nodup_append.mp hn
  have h2 : ∀ x ∈ pre, fpOf x ≠ fpOf e := by
    intro x hx heq
    exact hd.2.2 (fpOf x) (List.mem_map_of_mem hx) (fpOf e) (by simp) heq
  exact ⟨fun h => h2 e h rfl, h2⟩

/-- The parent of the next entry is an already created directory. -/
theorem parent_present (stored : String → Bool) (es : List (Entry β)) (F0 : List (String × RFile H)) (EXT : List String)
    (wf : WFArchive es) (pre : List (Entry β)) (e : Entry β) (post : List (Entry β)) (hs : es = pre ++ e :: post)
    (st : RSt β) (seen : List String) (inv : TInv stored es F0 EXT pre st seen) : parentOk st.fs (fpOf e) = true := by
  unfold parentOk
  rcases wf.parents pre e post hs with h | ⟨d, hd, hdir, hfp⟩
  · rw [h]
  · rw [← hfp]
    have hdes : d ∈ es := by rw [hs]; exact List.mem_append_left _ hd
    have hne : fpOf d ≠ [] := tarPathToFile_ne_nil _ _ (wf.paths d hdes)
    have hp : Present stored pre st.preCreated st.restored d := by
      cases d with
      | dir p m => exact Or.inl hd
      | file p m dd => cases hdir
      | symlink p m t => cases hdir
      | other p => cases hdir
    have hg := inv.fsPresent d hdes hp
    cases hfd : fpOf d with
    | nil => exact absurd hfd hne
    | cons c cs =>
      rw [hfd] at hg
      simp only [hg]
      cases d with
      | dir p m => rfl
      | file p m dd => cases hdir
      | symlink p m t => cases hdir
      | other p => cases hdir

theorem mem_snoc_of_ne {α : Type} (pre : List α) (e x : α) (h : x ≠ e) : x ∈ pre ++ [e] ↔ x ∈ pre := by
  simp [h]

theorem present_dir_iff (stored : String → Bool) (pre : List (Entry β)) (pc : List FPath) (rs : List String)
    (p : String) (m : Meta) : Present stored pre pc rs (.dir p m : Entry β) ↔ ((.dir p m : Entry β) ∈ pre ∨ fpOf (.dir p m : Entry β) ∈ pc) := Iff.rfl

/-- Processing a directory entry of the target archive. -/
theorem step_dir (hashOf : List β → H) (stored : String → Bool) (pad : String → List β) (es : List (Entry β)) (F0 : List (String × RFile H)) (EXT : List String)
    (ctx : TCtx hashOf es stored F0 EXT) (pre : List (Entry β)) (p : String) (m : Meta) (post : List (Entry β))
    (hs : es = pre ++ (.dir p m) :: post) (st : RSt β) (seen : List String) (inv : TInv stored es F0 EXT pre st seen) :
    ∃ st', processEntry hashOf F0 true st seen (stripE stored pad (.dir p m)) = some (st', seen) ∧
      TInv stored es F0 EXT (pre ++ [.dir p m]) st' seen := by
  have wf := ctx.wf
  -- the table has no entry for a directory
  have hnokey : ∀ info, (keyE (.dir p m : Entry β), info) ∉ F0 := by
    intro info hin
    obtain ⟨a, ha, hown, hk, _⟩ := ctx.f0_keys _ hin
    have : a = .dir p m := keyE_inj es wf a _ ha (by rw [hs]; simp) hk.symm
    subst this
    cases hown
  have he : (.dir p m : Entry β) ∈ es := by rw [hs]; simp
  have hpath := wf.paths _ he
  obtain ⟨hnotin, hfpne⟩ := split_notin es wf pre _ post hs
  have hne : fpOf (.dir p m : Entry β) ≠ [] := tarPathToFile_ne_nil _ _ hpath
  simp only [Entry.path] at hpath
  simp only [stripE, processEntry, hpath, Bool.not_true, Bool.false_eq_true, if_false]
  -- membership in the extended prefix, for entries other than the new one
  have hmem : ∀ x : Entry β, x ≠ .dir p m → (x ∈ pre ++ [.dir p m] ↔ x ∈ pre) := fun x hx => mem_snoc_of_ne pre _ x hx
  have hsched : schedT stored (pre ++ [.dir p m]) = schedT stored pre ++ [(fpOf (.dir p m : Entry β), m)] := by
    rw [schedT_snoc]; rfl
  by_cases hpc : st.preCreated.contains (fpOf (.dir p m : Entry β)) = true
  · -- created earlier as an ancestor of a fan-out path
    simp only [hpc, if_true]
    refine ⟨_, rfl, ?_⟩
    have hpcm : fpOf (.dir p m : Entry β) ∈ st.preCreated := by simpa using hpc
    have herase : ∀ q, q ∈ st.preCreated.erase (fpOf (.dir p m : Entry β)) ↔ q ∈ st.preCreated ∧ q ≠ fpOf (.dir p m : Entry β) := by
      intro q
      rw [List.Nodup.mem_erase_iff inv.pcNodup]
      exact ⟨fun h => ⟨h.2, h.1⟩, fun h => ⟨h.2, h.1⟩⟩
    have hpres : ∀ x ∈ es, (Present stored (pre ++ [.dir p m]) (st.preCreated.erase (fpOf (.dir p m : Entry β))) st.restored x ↔
        Present stored pre st.preCreated st.restored x) := by
      intro x hx
      by_cases hxe : x = .dir p m
      · subst hxe
        simp only [present_dir_iff]
        constructor
        · intro _; exact Or.inr hpcm
        · intro _; left; simp
      · have hfx : fpOf x ≠ fpOf (.dir p m : Entry β) := fun h => hxe (entry_of_fp es wf x _ hx he h)
        cases x with
        | dir p' m' =>
          simp only [present_dir_iff, hmem _ hxe, herase]
          constructor
          · rintro (h | h); exact Or.inl h; exact Or.inr h.1
          · rintro (h | h); exact Or.inl h; exact Or.inr ⟨h, hfx⟩
        | symlink p' m' t' => simp only [Present, hmem _ hxe]
        | file p' m' d' => simp only [Present, hmem _ hxe]
        | other p' => simp only [Present]
    exact {
      ok := inv.ok, missing := inv.missing, pendNodup := inv.pendNodup, pend := inv.pend
      restd := fun q hq => by
        obtain ⟨a, ha, r⟩ := inv.restd q hq
        exact ⟨a, List.mem_append_left _ ha, r⟩
      restd' := fun a ha info hinfo q hq => by
        rcases List.mem_append.mp ha with ha | ha
        · exact inv.restd' a ha info hinfo q hq
        · simp only [List.mem_singleton] at ha
          subst ha
          exact absurd hinfo (hnokey info)
      pcNodup := inv.pcNodup.erase _
      pc := fun q hq => by
        obtain ⟨hq1, hq2⟩ := (herase q).mp hq
        obtain ⟨d, hd, hdn, hdir, hfp⟩ := inv.pc q hq1
        refine ⟨d, hd, ?_, hdir, hfp⟩
        intro hin
        rcases List.mem_append.mp hin with h | h
        · exact hdn h
        · simp only [List.mem_singleton] at h
          subst h
          exact hq2 hfp.symm
      sched := by rw [hsched, ← inv.sched]
      seenOk := fun a ha hown => by
        rcases List.mem_append.mp ha with ha | ha
        · exact inv.seenOk a ha hown
        · simp only [List.mem_singleton] at ha
          subst ha
          cases hown
      fsSome := fun q n hq => by
        obtain ⟨e, hee, hfe, hp, hn⟩ := inv.fsSome q n hq
        exact ⟨e, hee, hfe, (hpres e hee).mpr hp, hn⟩
      fsPresent := fun e hee hp => inv.fsPresent e hee ((hpres e hee).mp hp) }
  · have hpcn : fpOf (.dir p m : Entry β) ∉ st.preCreated := by simpa using hpc
    simp only [hpc, if_false]
    have hfree : fsGet st.fs (fpOf (.dir p m : Entry β)) = none := by
      cases hg : fsGet st.fs (fpOf (.dir p m : Entry β)) with
      | none => rfl
      | some n =>
        obtain ⟨e', he', hfe, hp, _⟩ := inv.fsSome _ n hg
        have : e' = .dir p m := entry_of_fp es wf e' _ he' he hfe
        subst this
        rcases hp with h | h
        · exact absurd h hnotin
        · exact absurd h hpcn
    obtain ⟨fs', hc, hview⟩ := fsCreate_ok st.fs _ (.dir none) hfree (parent_present stored es F0 EXT wf pre _ post hs st seen inv) hne
    rw [hc]
    refine ⟨_, rfl, ?_⟩
    have hpres : ∀ x ∈ es, (Present stored (pre ++ [.dir p m]) st.preCreated st.restored x ↔
        Present stored pre st.preCreated st.restored x ∨ x = .dir p m) := by
      intro x hx
      by_cases hxe : x = .dir p m
      · subst hxe
        simp only [present_dir_iff, or_true, iff_true]
        left; simp
      · cases x with
        | dir p' m' => simp only [present_dir_iff, hmem _ hxe, hxe, or_false]
        | symlink p' m' t' => simp only [Present, hmem _ hxe, hxe, or_false]
        | file p' m' d' => simp only [Present, hmem _ hxe, hxe, or_false]
        | other p' => simp only [Present, hxe, or_false]
    exact {
      ok := inv.ok, missing := inv.missing, pendNodup := inv.pendNodup, pend := inv.pend
      restd := fun q hq => by
        obtain ⟨a, ha, r⟩ := inv.restd q hq
        exact ⟨a, List.mem_append_left _ ha, r⟩
      restd' := fun a ha info hinfo q hq => by
        rcases List.mem_append.mp ha with ha | ha
        · exact inv.restd' a ha info hinfo q hq
        · simp only [List.mem_singleton] at ha
          subst ha
          exact absurd hinfo (hnokey info)
      pcNodup := inv.pcNodup
      pc := fun q hq => by
        obtain ⟨d, hd, hdn, hdir, hfp⟩ := inv.pc q hq
        refine ⟨d, hd, ?_, hdir, hfp⟩
        intro hin
        rcases List.mem_append.mp hin with h | h
        · exact hdn h
        · simp only [List.mem_singleton] at h
          subst h
          exact hpcn (hfp ▸ hq)
      sched := by rw [hsched, ← inv.sched]
      seenOk := fun a ha hown => by
        rcases List.mem_append.mp ha with ha | ha
        · exact inv.seenOk a ha hown
        · simp only [List.mem_singleton] at ha
          subst ha
          cases hown
      fsSome := fun q n hq => by
        rw [hview q] at hq
        by_cases hqe : q = fpOf (.dir p m : Entry β)
        · simp only [hqe, if_true, Option.some.injEq] at hq
          refine ⟨.dir p m, he, hqe.symm, (hpres _ he).mpr (Or.inr rfl), hq.symm⟩
        · simp only [hqe, if_false] at hq
          obtain ⟨e, hee, hfe, hp, hn⟩ := inv.fsSome q n hq
          exact ⟨e, hee, hfe, (hpres e hee).mpr (Or.inl hp), hn⟩
      fsPresent := fun e hee hp => by
        rw [hview]
        rcases (hpres e hee).mp hp with hp | rfl
        · have hfx : fpOf e ≠ fpOf (.dir p m : Entry β) := by
            intro h
            have : e = .dir p m := entry_of_fp es wf e _ hee he h
            subst this
            rcases hp with h | h
            · exact hnotin h
            · exact hpcn h
          simp only [hfx, if_false]
          exact inv.fsPresent e hee hp
        · simp [nodeT] }

/-- Processing a symbolic link entry of the target archive. -/
theorem step_symlink (hashOf : List β → H) (stored : String → Bool) (pad : String → List β) (es : List (Entry β)) (F0 : List (String × RFile H)) (EXT : List String)
    (ctx : TCtx hashOf es stored F0 EXT) (pre : List (Entry β)) (p : String) (m : Meta) (t : String) (post : List (Entry β))
    (hs : es = pre ++ (.symlink p m t) :: post) (st : RSt β) (seen : List String) (inv : TInv stored es F0 EXT pre st seen) :
    ∃ st', processEntry hashOf F0 true st seen (stripE stored pad (.symlink p m t)) = some (st', seen) ∧
      TInv stored es F0 EXT (pre ++ [.symlink p m t]) st' seen := by
  have wf := ctx.wf
  have hnokey : ∀ info, (keyE (.symlink p m t : Entry β), info) ∉ F0 := by
    intro info hin
    obtain ⟨a, ha, hown, hk, _⟩ := ctx.f0_keys _ hin
    have : a = .symlink p m t := keyE_inj es wf a _ ha (by rw [hs]; simp) hk.symm
    subst this
    cases hown
  have he : (.symlink p m t : Entry β) ∈ es := by rw [hs]; simp
  have hpath := wf.paths _ he
  obtain ⟨hnotin, hfpne⟩ := split_notin es wf pre _ post hs
  have hne : fpOf (.symlink p m t : Entry β) ≠ [] := tarPathToFile_ne_nil _ _ hpath
  simp only [Entry.path] at hpath
  simp only [stripE, processEntry, hpath, Bool.not_true, Bool.false_eq_true, if_false]
  have hmem : ∀ x : Entry β, x ≠ .symlink p m t → (x ∈ pre ++ [.symlink p m t] ↔ x ∈ pre) := fun x hx => mem_snoc_of_ne pre _ x hx
  have hsched : schedT stored (pre ++ [.symlink p m t]) = schedT stored pre := by
    rw [schedT_snoc]; simp [schedT]
  have hfree : fsGet st.fs (fpOf (.symlink p m t : Entry β)) = none := by
    cases hg : fsGet st.fs (fpOf (.symlink p m t : Entry β)) with
    | none => rfl
    | some n =>
      obtain ⟨e', he', hfe, hp, _⟩ := inv.fsSome _ n hg
      have : e' = .symlink p m t := entry_of_fp es wf e' _ he' he hfe
      subst this
      exact absurd hp hnotin
  obtain ⟨fs', hc, hview⟩ := fsCreate_ok st.fs _ (.symlink t m) hfree (parent_present stored es F0 EXT wf pre _ post hs st seen inv) hne
  rw [hc]
  refine ⟨_, rfl, ?_⟩
  have hpres : ∀ x ∈ es, (Present stored (pre ++ [.symlink p m t]) st.preCreated st.restored x ↔
      Present stored pre st.preCreated st.restored x ∨ x = .symlink p m t) := by
    intro x hx
    by_cases hxe : x = .symlink p m t
    · subst hxe
      simp only [Present, or_true, iff_true]
      simp
    · cases x with
      | dir p' m' => simp only [present_dir_iff, hmem _ hxe, hxe, or_false]
      | symlink p' m' t' => simp only [Present, hmem _ hxe, hxe, or_false]
      | file p' m' d' => simp only [Present, hmem _ hxe, hxe, or_false]
      | other p' => simp only [Present, hxe, or_false]
  exact {
    ok := inv.ok, missing := inv.missing, pendNodup := inv.pendNodup, pend := inv.pend
    restd := fun q hq => by
      obtain ⟨a, ha, r⟩ := inv.restd q hq
      exact ⟨a, List.mem_append_left _ ha, r⟩
    restd' := fun a ha info hinfo q hq => by
      rcases List.mem_append.mp ha with ha | ha
      · exact inv.restd' a ha info hinfo q hq
      · simp only [List.mem_singleton] at ha
        subst ha
        exact absurd hinfo (hnokey info)
    pcNodup := inv.pcNodup
    pc := fun q hq => by
      obtain ⟨d, hd, hdn, hdir, hfp⟩ := inv.pc q hq
      refine ⟨d, hd, ?_, hdir, hfp⟩
      intro hin
      rcases List.mem_append.mp hin with h | h
      · exact hdn h
      · simp only [List.mem_singleton] at h
        subst h
        cases hdir
    sched := by rw [hsched, ← inv.sched]
    seenOk := fun a ha hown => by
      rcases List.mem_append.mp ha with ha | ha
      · exact inv.seenOk a ha hown
      · simp only [List.mem_singleton] at ha
        subst ha
        cases hown
    fsSome := fun q n hq => by
      rw [hview q] at hq
      by_cases hqe : q = fpOf (.symlink p m t : Entry β)
      · simp only [hqe, if_true, Option.some.injEq] at hq
        refine ⟨.symlink p m t, he, hqe.symm, (hpres _ he).mpr (Or.inr rfl), hq.symm⟩
      · simp only [hqe, if_false] at hq
        obtain ⟨e, hee, hfe, hp, hn⟩ := inv.fsSome q n hq
        exact ⟨e, hee, hfe, (hpres e hee).mpr (Or.inl hp), hn⟩
    fsPresent := fun e hee hp => by
      rw [hview]
      rcases (hpres e hee).mp hp with hp | rfl
      · have hfx : fpOf e ≠ fpOf (.symlink p m t : Entry β) := by
          intro h
          have : e = .symlink p m t := entry_of_fp es wf e _ hee he h
          subst this
          exact hnotin hp
        simp only [hfx, if_false]
        exact inv.fsPresent e hee hp
      · simp [nodeT] }

theorem own_not_ext (stored : String → Bool) (e : Entry β) (h1 : isOwnE stored e = true) (h2 : isExtE stored e = true) : False := by
  cases e with
  | file p m d =>
    simp only [isOwnE, isExtE, Bool.or_eq_true, Bool.and_eq_true, Bool.not_eq_true'] at h1 h2
    rcases h1 with h | h
    · rw [h] at h2; exact absurd h2.1 (by simp)
    · rw [h] at h2; exact absurd h2.2 (by simp)
  | dir p m => cases h1
  | symlink p m t => cases h1
  | other p => cases h1

theorem mapGet_none_of_notin {V : Type} (m : List (String × V)) (k : String) (h : ∀ v, (k, v) ∉ m) : mapGet m k = none := by
  unfold mapGet
  rw [Option.map_eq_none_iff, List.find?_eq_none]
  intro x hx
  simp only [decide_eq_true_eq]
  intro heq
  exact h x.2 (by rw [← heq]; exact hx)

theorem mapGet_of_mem {V : Type} (m : List (String × V)) (hn : (m.map (·.1)).Nodup) (k : String) (v : V) (h : (k, v) ∈ m) :
    mapGet m k = some v := by
  induction m with
  | nil => cases h
  | cons x xs ih =>
    simp only [List.map_cons, List.nodup_cons] at hn
    unfold mapGet
    simp only [List.find?_cons]
    rcases List.mem_cons.mp h with heq | hin
    · rw [← heq]; simp
    · have hne : x.1 ≠ k := by
        intro hx
        apply hn.1
        rw [hx]
        exact List.mem_map_of_mem (f := (·.1)) hin
      simp only [hne, decide_false]
      exact ih hn.2 hin

/-- Processing, in the target archive, the (data-less) entry of a file whose bytes live elsewhere. -/
theorem step_ext (hashOf : List β → H) (stored : String → Bool) (pad : String → List β) (es : List (Entry β)) (F0 : List (String × RFile H)) (EXT : List String)
    (ctx : TCtx hashOf es stored F0 EXT) (pre : List (Entry β)) (p : String) (m : Meta) (d : List β) (post : List (Entry β))
    (hs : es = pre ++ (.file p m d) :: post) (hext : isExtE stored (.file p m d : Entry β) = true)
    (st : RSt β) (seen : List String) (inv : TInv stored es F0 EXT pre st seen) :
    ∃ st', processEntry hashOf F0 true st seen (stripE stored pad (.file p m d)) = some (st', seen) ∧
      TInv stored es F0 EXT (pre ++ [.file p m d]) st' seen := by
  have wf := ctx.wf
  have he : (.file p m d : Entry β) ∈ es := by rw [hs]; simp
  have hnokey : ∀ info, (keyE (.file p m d : Entry β), info) ∉ F0 := by
    intro info hin
    obtain ⟨a, ha, hown, hk, _⟩ := ctx.f0_keys _ hin
    have : a = .file p m d := keyE_inj es wf a _ ha he hk.symm
    subst this
    exact own_not_ext stored _ hown hext
  have hpath := wf.paths _ he
  obtain ⟨hnotin, hfpne⟩ := split_notin es wf pre _ post hs
  simp only [Entry.path] at hpath
  have hst : stored p = false := by
    simp only [isExtE, Bool.and_eq_true, Bool.not_eq_true'] at hext
    exact hext.2
  have hk : ("/" ++ "/".intercalate (fpOf (Entry.file p m d : Entry β))) = keyE (Entry.file p m d : Entry β) := rfl
  simp only [stripE, hst, Bool.false_eq_true, if_false, processEntry, hpath]
  have hfp : fpOf (Entry.file p m ([] : List β)) = fpOf (Entry.file p m d : Entry β) := rfl
  simp only [hk, mapGet_none_of_notin F0 _ hnokey, Bool.not_true, Bool.false_eq_true, if_false]
  have hin : keyE (.file p m d : Entry β) ∈ EXT := ctx.extComplete _ he hext
  have hcont : (st.pending.contains (keyE (.file p m d : Entry β)) || st.restored.contains (keyE (.file p m d : Entry β))) = true := by
    by_cases hr : keyE (.file p m d : Entry β) ∈ st.restored
    · simp [hr]
    · have := (inv.pend _).mpr ⟨hin, hr⟩
      simp [this]
  simp only [hcont, if_true]
  refine ⟨_, rfl, ?_⟩
  have hmem : ∀ x : Entry β, x ≠ .file p m d → (x ∈ pre ++ [.file p m d] ↔ x ∈ pre) := fun x hx => mem_snoc_of_ne pre _ x hx
  have hsched : schedT stored (pre ++ [.file p m d]) = schedT stored pre ++ [(fpOf (.file p m d : Entry β), m)] := by
    rw [schedT_snoc]; simp [schedT, hext]
  have hpres : ∀ x ∈ es, (Present stored (pre ++ [.file p m d]) st.preCreated st.restored x ↔
      Present stored pre st.preCreated st.restored x) := by
    intro x hx
    by_cases hxe : x = .file p m d
    · subst hxe
      simp only [Present, hext, if_true]
    · cases x with
      | dir p' m' => simp only [present_dir_iff, hmem _ hxe]
      | symlink p' m' t' => simp only [Present, hmem _ hxe]
      | file p' m' d' => simp only [Present, hmem _ hxe]
      | other p' => simp only [Present]
  exact {
    ok := by simp [inv.ok], missing := inv.missing, pendNodup := inv.pendNodup, pend := inv.pend
    restd := fun q hq => by
      obtain ⟨a, ha, r⟩ := inv.restd q hq
      exact ⟨a, List.mem_append_left _ ha, r⟩
    restd' := fun a ha info hinfo q hq => by
      rcases List.mem_append.mp ha with ha | ha
      · exact inv.restd' a ha info hinfo q hq
      · simp only [List.mem_singleton] at ha
        subst ha
        exact absurd hinfo (hnokey info)
    pcNodup := inv.pcNodup
    pc := fun q hq => by
      obtain ⟨d', hd, hdn, hdir, hfp⟩ := inv.pc q hq
      refine ⟨d', hd, ?_, hdir, hfp⟩
      intro hin
      rcases List.mem_append.mp hin with h | h
      · exact hdn h
      · simp only [List.mem_singleton] at h
        subst h
        cases hdir
    sched := by simp only []; rw [hsched, ← inv.sched]
    seenOk := fun a ha hown => by
      rcases List.mem_append.mp ha with ha | ha
      · exact inv.seenOk a ha hown
      · simp only [List.mem_singleton] at ha
        subst ha
        exact absurd hext (fun h => own_not_ext stored _ hown h)
    fsSome := fun q n hq => by
      obtain ⟨e, hee, hfe, hp, hn⟩ := inv.fsSome q n hq
      exact ⟨e, hee, hfe, (hpres e hee).mpr hp, hn⟩
    fsPresent := fun e hee hp => inv.fsPresent e hee ((hpres e hee).mp hp) }

end Vsb.Restore
