import VsbModel.Lemmas.WalkWF
set_option linter.unusedSimpArgs false
set_option linter.unusedSectionVars false
set_option linter.unusedVariables false
set_option linter.unnecessarySimpa false

/-!
The items of a run: the ancestors of each item root (archived once, cached in `root_parents`) and the item's
subtree.  Invariant `G` over everything archived so far; conclusion: no path twice, every parent first.
-/
namespace Vsb.Walk

/-- Exempt from the parent rule at the top: entries directly below `/`. -/
def exTop : Path → Bool := fun q => q.dropLast == []

structure G (roots cache : List Path) (evs : List Ev) : Prop where
  nodup : (archs evs).Nodup
  parents : parentsOk exTop [] evs = true
  cover : ∀ q ∈ archs evs, q ∈ cache ∨ ∃ r ∈ roots, r <+: q
  cached : ∀ c ∈ cache, c ∈ dirsOf evs
  cacheUnder : ∀ c ∈ cache, ∃ r ∈ roots, c <+: r ∧ c ≠ r
  apart : ∀ a ∈ roots, ∀ b ∈ roots, a <+: b → a = b

theorem dirsOf_sub_archs (evs : List Ev) : ∀ q ∈ dirsOf evs, q ∈ archs evs := by
  intro q hq
  obtain ⟨e, he, hd⟩ := List.mem_filterMap.mp hq
  refine List.mem_filterMap.mpr ⟨e, he, ?_⟩
  cases e <;> simp [Ev.dir] at hd <;> simp [Ev.arch, hd]

theorem dirsOf_noarch (x : List Ev) (hx : archs x = []) : dirsOf x = [] := by
  apply List.eq_nil_iff_forall_not_mem.mpr
  intro q hq
  have := dirsOf_sub_archs x q hq
  rw [hx] at this
  cases this

/-- Events that archive nothing do not disturb the invariant. -/
theorem G.append_noarch {roots cache : List Path} {evs : List Ev} (g : G roots cache evs) (x : List Ev) (hx : archs x = []) :
    G roots cache (evs ++ x) :=
  { nodup := by rw [archs_append, hx, List.append_nil]; exact g.nodup
    parents := by rw [parentsOk_append, g.parents, parentsOk_noarch _ x hx]; rfl
    cover := fun q hq => by rw [archs_append, hx, List.append_nil] at hq; exact g.cover q hq
    cached := fun c hc => by rw [dirsOf_append]; exact List.mem_append_left _ (g.cached c hc)
    cacheUnder := g.cacheUnder
    apart := g.apart }

/-- A new item root that overlaps none of the earlier ones. -/
theorem G.add_root {roots cache : List Path} {evs : List Ev} (g : G roots cache evs) (p : Path)
    (hov : overlaps roots p = false) : G (roots ++ [p]) cache evs :=
  { nodup := g.nodup, parents := g.parents
    cover := fun q hq => by
      rcases g.cover q hq with h | ⟨r, hr, h⟩
      · exact Or.inl h
      · exact Or.inr ⟨r, List.mem_append_left _ hr, h⟩
    cached := g.cached
    cacheUnder := fun c hc => by
      obtain ⟨r, hr, h⟩ := g.cacheUnder c hc
      exact ⟨r, List.mem_append_left _ hr, h⟩
    apart := fun a ha b hb hab => by
      have hno : ∀ r ∈ roots, ¬ r <+: p ∧ ¬ p <+: r := by
        intro r hr
        unfold overlaps at hov
        rw [List.any_eq_false] at hov
        have := hov r hr
        simp only [isPrefix, Bool.or_eq_true, List.isPrefixOf_iff_prefix, not_or] at this
        exact this
      rcases List.mem_append.mp ha with ha' | ha'
      · rcases List.mem_append.mp hb with hb' | hb'
        · exact g.apart a ha' b hb' hab
        · simp only [List.mem_singleton] at hb'
          rw [hb'] at hab
          exact absurd hab (hno a ha').1
      · simp only [List.mem_singleton] at ha'
        rcases List.mem_append.mp hb with hb' | hb'
        · rw [ha'] at hab
          exact absurd hab (hno b hb').2
        · simp only [List.mem_singleton] at hb'
          rw [ha', hb'] }

theorem prefix_len_lt {a b : Path} (h : a <+: b) (hne : a ≠ b) : a.length < b.length := by
  obtain ⟨t, ht⟩ := h
  cases t with
  | nil => simp at ht; exact absurd ht hne
  | cons x xs => rw [← ht]; simp

/-- A proper prefix of the current root that is not cached has not been archived. -/
theorem G.fresh_parent {roots cache : List Path} {evs : List Ev} (g : G roots cache evs) (p : Path) (hp : p ∈ roots)
    (q : Path) (hq : q <+: p) (hne : q ≠ p) (hnc : q ∉ cache) : q ∉ archs evs := by
  intro hin
  rcases g.cover q hin with h | ⟨r, hr, h⟩
  · exact hnc h
  · have hrp : r <+: p := h.trans hq
    have := g.apart r hr p hp hrp
    subst this
    have h1 := prefix_len_lt hq hne
    have h2 := h.length_le
    omega

/-- Nothing below the current root has been archived. -/
theorem G.fresh_below {roots cache : List Path} {evs : List Ev} (g : G roots cache evs) (p : Path) (hp : p ∈ roots)
    (hold : ∀ q ∈ archs evs, (∃ r ∈ roots, r ≠ p ∧ r <+: q) ∨ q ∈ cache)
    (q : Path) (hq : p <+: q) : q ∉ archs evs := by
  intro hin
  rcases hold q hin with ⟨r, hr, hrne, hrq⟩ | hc
  · rcases List.prefix_or_prefix_of_prefix hrq hq with h | h
    · exact hrne (g.apart r hr p hp h)
    · exact hrne (g.apart p hp r hr h).symm
  · obtain ⟨r, hr, hcr, hcne⟩ := g.cacheUnder q hc
    have hpr : p <+: r := hq.trans hcr
    have := g.apart p hp r hr hpr
    subst this
    -- q is a proper prefix of p and p is a prefix of q
    have h1 := prefix_len_lt hcr hcne
    have h2 := hq.length_le
    omega


/-- The invariant while item root `p` is being handled (its subtree not yet walked). -/
structure GI (rootsOld : List Path) (p : Path) (cache : List Path) (evs : List Ev) : Prop where
  g : G (rootsOld ++ [p]) cache evs
  old : ∀ q ∈ archs evs, q ∈ cache ∨ ∃ r ∈ rootsOld, r <+: q
  pnew : ∀ r ∈ rootsOld, ¬ r <+: p ∧ ¬ p <+: r

theorem GI.append_noarch {rootsOld : List Path} {p : Path} {cache : List Path} {evs : List Ev}
    (gi : GI rootsOld p cache evs) (x : List Ev) (hx : archs x = []) : GI rootsOld p cache (evs ++ x) :=
  { g := gi.g.append_noarch x hx
    old := fun q hq => by rw [archs_append, hx, List.append_nil] at hq; exact gi.old q hq
    pnew := gi.pnew }

theorem parentsLoop_inv (parentOf : Path → Parent) (p : Path) (rootsOld : List Path) (evs0 : List Ev) :
    ∀ (comps : List String) (pre : Path) (cache : List Path) (evs : List Ev),
      pre ++ comps = p → (comps = [] → pre = []) → (pre = [] ∨ pre ∈ cache) → GI rootsOld p cache (evs0 ++ evs) →
      GI rootsOld p (parentsLoop parentOf p pre comps cache evs).cache (evs0 ++ (parentsLoop parentOf p pre comps cache evs).evs) ∧
      ((parentsLoop parentOf p pre comps cache evs).go = some true →
        p.dropLast = [] ∨ p.dropLast ∈ (parentsLoop parentOf p pre comps cache evs).cache) := by
  intro comps
  induction comps with
  | nil =>
    intro pre cache evs hp hc _ gi
    simp only [parentsLoop]
    refine ⟨gi, fun _ => Or.inl ?_⟩
    have := hc rfl
    subst this
    simp at hp
    rw [hp]; rfl
  | cons c rest ih =>
    intro pre cache evs hp _ hpre gi
    cases rest with
    | nil =>
      simp only [parentsLoop]
      refine ⟨gi, fun _ => ?_⟩
      have : p.dropLast = pre := by rw [← hp]; simp
      rw [this]
      exact hpre
    | cons c2 rest' =>
      simp only [parentsLoop]
      have hpar : (pre ++ [c]) <+: p := ⟨c2 :: rest', by rw [← hp]; simp⟩
      have hparne : pre ++ [c] ≠ p := by
        intro h
        have := congrArg List.length h
        rw [← hp] at this
        simp at this
      have hp' : (pre ++ [c]) ++ (c2 :: rest') = p := by rw [← hp]; simp
      by_cases hcached : cache.contains (pre ++ [c]) = true
      · rw [if_pos hcached]
        exact ih (pre ++ [c]) cache evs hp' (by intro h; cases h) (Or.inr (by simpa using hcached)) gi
      · rw [if_neg hcached]
        have hnc : pre ++ [c] ∉ cache := by simpa using hcached
        cases hpo : parentOf (pre ++ [c]) with
        | ok =>
          simp only
          have hpin : p ∈ rootsOld ++ [p] := by simp
          have hfresh := gi.g.fresh_parent p hpin (pre ++ [c]) hpar hparne hnc
          have gi' : GI rootsOld p (cache ++ [pre ++ [c]]) (evs0 ++ (evs ++ [Ev.archDir (pre ++ [c])])) := by
            rw [← List.append_assoc]
            exact {
              g := {
                nodup := by
                  rw [archs_append, List.nodup_append]
                  refine ⟨gi.g.nodup, by simp [archs, List.filterMap_cons, Ev.arch], ?_⟩
                  intro x hx y hy hxy
                  simp only [archs, List.filterMap_cons, Ev.arch, List.filterMap_nil, List.mem_singleton] at hy
                  subst hxy
                  exact hfresh (hy ▸ hx)
                parents := by
                  rw [parentsOk_append, gi.g.parents]
                  simp only [Bool.true_and, List.nil_append, parentsOk, Ev.arch, Bool.and_true, Bool.or_eq_true,
                    List.contains_iff_mem]
                  rcases hpre with h | h
                  · left; simp [exTop, h]
                  · right
                    have : (pre ++ [c]).dropLast = pre := by simp
                    rw [this]
                    exact gi.g.cached pre h
                cover := fun q hq => by
                  rw [archs_append] at hq
                  rcases List.mem_append.mp hq with h | h
                  · rcases gi.g.cover q h with h' | h'
                    · exact Or.inl (List.mem_append_left _ h')
                    · exact Or.inr h'
                  · simp only [archs, List.filterMap_cons, Ev.arch, List.filterMap_nil, List.mem_singleton] at h
                    exact Or.inl (by rw [h]; simp)
                cached := fun x hx => by
                  rw [dirsOf_append]
                  rcases List.mem_append.mp hx with h | h
                  · exact List.mem_append_left _ (gi.g.cached x h)
                  · simp only [List.mem_singleton] at h
                    apply List.mem_append_right
                    simp [dirsOf, List.filterMap_cons, Ev.dir, h]
                cacheUnder := fun x hx => by
                  rcases List.mem_append.mp hx with h | h
                  · exact gi.g.cacheUnder x h
                  · simp only [List.mem_singleton] at h
                    exact ⟨p, hpin, h ▸ hpar, h ▸ hparne⟩
                apart := gi.g.apart }
              old := fun q hq => by
                rw [archs_append] at hq
                rcases List.mem_append.mp hq with h | h
                · rcases gi.old q h with h' | h'
                  · exact Or.inl (List.mem_append_left _ h')
                  · exact Or.inr h'
                · simp only [archs, List.filterMap_cons, Ev.arch, List.filterMap_nil, List.mem_singleton] at h
                  exact Or.inl (by rw [h]; simp)
              pnew := gi.pnew }
          exact ih (pre ++ [c]) _ _ hp' (by intro h; cases h) (Or.inr (by simp)) gi'
        | lstatErr =>
          simp only
          refine ⟨?_, fun h => by cases h⟩
          rw [← List.append_assoc]
          exact gi.append_noarch _ rfl
        | notDir =>
          simp only
          refine ⟨?_, fun h => by cases h⟩
          rw [← List.append_assoc]
          exact gi.append_noarch _ rfl
        | addFails =>
          simp only
          exact ⟨gi, fun h => by cases h⟩

/-- The subtree of the item root, walked after its ancestors. -/
theorem subtree_inv (rootsOld : List Path) (p : Path) (cache : List Path) (evs w : List Ev)
    (gi : GI rootsOld p cache evs) (hpar : p.dropLast = [] ∨ p.dropLast ∈ cache) (hw : Frag p w) :
    G (rootsOld ++ [p]) cache (evs ++ w) := by
  have hpin : p ∈ rootsOld ++ [p] := by simp
  have hfresh : ∀ q ∈ archs w, q ∉ archs evs := by
    intro q hq
    obtain ⟨s, hs⟩ := hw.under q hq
    apply gi.g.fresh_below p hpin _ q ⟨s, hs.symm⟩
    intro q' hq'
    rcases gi.old q' hq' with h | ⟨r, hr, hrq⟩
    · exact Or.inr h
    · refine Or.inl ⟨r, List.mem_append_left _ hr, ?_, hrq⟩
      intro h
      subst h
      exact (gi.pnew r hr).1 (List.prefix_refl _)
  exact {
    nodup := by
      rw [archs_append, List.nodup_append]
      refine ⟨gi.g.nodup, hw.nodup, ?_⟩
      intro x hx y hy hxy
      subst hxy
      exact hfresh x hy hx
    parents := by
      rw [parentsOk_append, gi.g.parents]
      simp only [Bool.true_and, List.nil_append]
      apply parentsOk_mono _ _ w [] _ _ (fun q hq => by cases hq) hw.parents
      intro q _ hq
      simp only [Bool.or_eq_true, beq_iff_eq] at hq
      rcases hq with hq | hq
      · subst hq
        rcases hpar with h | h
        · left; simp [exTop, h]
        · right; exact gi.g.cached _ h
      · left; simp [exTop, hq]
    cover := fun q hq => by
      rw [archs_append] at hq
      rcases List.mem_append.mp hq with h | h
      · exact gi.g.cover q h
      · obtain ⟨s, hs⟩ := hw.under q h
        exact Or.inr ⟨p, hpin, ⟨s, hs.symm⟩⟩
    cached := fun c hc => by rw [dirsOf_append]; exact List.mem_append_left _ (gi.g.cached c hc)
    cacheUnder := gi.g.cacheUnder
    apart := gi.g.apart }


theorem walkTop_inv (parentOf : Path → Parent) (it : Item) (p : Path) (roots cache : List Path) (evs0 : List Ev)
    (g : G roots cache evs0) (hov : overlaps roots p = false) (hn : namesOk it.node = true) :
    G (roots ++ [p]) (walkTop parentOf it p cache).2 (evs0 ++ (walkTop parentOf it p cache).1.evs) := by
  have gi0 : GI roots p cache (evs0 ++ []) := by
    rw [List.append_nil]
    exact {
      g := g.add_root p hov
      old := g.cover
      pnew := fun r hr => by
        unfold overlaps at hov
        rw [List.any_eq_false] at hov
        have := hov r hr
        simp only [isPrefix, Bool.or_eq_true, List.isPrefixOf_iff_prefix, not_or] at this
        exact this }
  unfold walkTop
  by_cases hpv : it.pathValid = true
  · simp only [hpv, Bool.not_true, Bool.false_eq_true, if_false]
    obtain ⟨gi, hpar⟩ := parentsLoop_inv parentOf p roots evs0 p [] cache [] (by simp) (fun _ => rfl) (Or.inl rfl) gi0
    unfold walkParents
    cases hgo : (parentsLoop parentOf p [] p cache []).go with
    | none => simp only; exact gi.g
    | some b =>
      cases b with
      | false => simp only; exact gi.g
      | true =>
        simp only
        rw [← List.append_assoc]
        exact subtree_inv roots p _ _ _ gi (hpar hgo) (frag_walkNode it.allow p [] true it.node hn)
  · have : it.pathValid = false := by simpa using hpv
    simp only [this, Bool.not_false, if_true]
    exact (g.add_root p hov).append_noarch _ rfl

theorem archs_hookOut (i : Nat) (h : Hook) (b : Bool) : archs (hookOut i h b).evs = [] := by
  cases h <;> cases b <;> rfl

theorem runItem_inv (parentOf : Path → Parent) (i : Nat) (it : Item) (st : St) (evs0 : List Ev)
    (g : G st.roots st.rootParents evs0) (hn : namesOk it.node = true) :
    G (runItem parentOf i it st).2.1.roots (runItem parentOf i it st).2.1.rootParents (evs0 ++ (runItem parentOf i it st).1) := by
  have g1 : G st.roots st.rootParents (evs0 ++ (hookOut i it.before true).evs) := g.append_noarch _ (archs_hookOut _ _ _)
  have hbody : G (itemBody parentOf i it st).2.roots (itemBody parentOf i it st).2.rootParents
      ((evs0 ++ (hookOut i it.before true).evs) ++ (itemBody parentOf i it st).1.evs) := by
    unfold itemBody
    cases hr : it.resolved with
    | none => simp only; exact g1.append_noarch _ rfl
    | some p =>
      simp only
      by_cases hov : overlaps st.roots p = true
      · rw [if_pos hov]; exact g1.append_noarch _ rfl
      · rw [if_neg hov]
        simp only
        exact walkTop_inv parentOf it p st.roots st.rootParents _ g1 (by simpa using hov) hn
  have := hbody.append_noarch (hookOut i it.after false).evs (archs_hookOut _ _ _)
  simpa [runItem, List.append_assoc] using this

/-- **The walk archives a well-formed sequence.**  For every list of items over trees whose directories hold no name
twice, whatever errors, hooks, overlaps and aborts occur: no path is archived twice, and every archived path has its
parent directory archived before it, or sits directly below `/`. -/
theorem trace_wf (parentOf : Path → Parent) : ∀ (items : List Item) (i : Nat) (st : St) (evs0 : List Ev),
    G st.roots st.rootParents evs0 → (∀ it ∈ items, namesOk it.node = true) →
    (archs (evs0 ++ (trace parentOf i items st).1)).Nodup ∧
    parentsOk exTop [] (evs0 ++ (trace parentOf i items st).1) = true := by
  intro items
  induction items with
  | nil => intro i st evs0 g _; simp only [trace, List.append_nil]; exact ⟨g.nodup, g.parents⟩
  | cons it rest ih =>
    intro i st evs0 g hn
    have g1 := runItem_inv parentOf i it st evs0 g (hn it (by simp))
    simp only [trace]
    by_cases hab : (runItem parentOf i it st).2.2 = true
    · rw [if_pos hab]; exact ⟨g1.nodup, g1.parents⟩
    · rw [if_neg hab]
      simp only
      have := ih (i + 1) (runItem parentOf i it st).2.1 _ g1 (fun it' h => hn it' (List.mem_cons_of_mem _ h))
      simpa [List.append_assoc] using this

theorem run_wf (parentOf : Path → Parent) (items : List Item) (finishOk : Bool)
    (hn : ∀ it ∈ items, namesOk it.node = true) :
    (archs (run parentOf items finishOk).1).Nodup ∧ parentsOk exTop [] (run parentOf items finishOk).1 = true := by
  have g0 : G ({} : St).roots ({} : St).rootParents [] :=
    { nodup := List.nodup_nil, parents := rfl
      cover := fun q hq => by cases hq
      cached := fun c hc => by cases hc
      cacheUnder := fun c hc => by cases hc
      apart := fun a ha => by cases ha }
  have := trace_wf parentOf items 0 {} [] g0 hn
  simpa [run] using this

end Vsb.Walk
