import VsbModel.Model.LogicalRun
import VsbModel.Props.C02
import VsbModel.Lemmas.PlanFacts
set_option linter.unusedSimpArgs false
set_option linter.unusedSectionVars false
set_option linter.unusedVariables false

/-!
Runs at the level of trees (`runL`): the logical backup a run produces has exactly the manifest the
deduplication model computes, so C02's invariant carries over, and with it the hypotheses of `restore_exact`.
-/
namespace Vsb.Restore
open Vsb.Dedup
variable {H β F : Type} [DecidableEq H] [DecidableEq F]

theorem dedupOne_record (emptyHash : H) (known : List H) (last : Option (List (Rec H F String))) (e : FileEv H F String)
    (a1 : e.size = 0 → e.hash = emptyHash)
    (a2 : ∀ l r, last = some l → lookupLast l e.path = some r → r.fp = e.fp → r.hash = e.hash) :
    (dedupOne emptyHash known last e).record =
      ⟨(dedupOne emptyHash known last e).record.unique, e.hash, e.fp, e.size, e.path⟩ ∧
    ((dedupOne emptyHash known last e).record.unique = true → e.size ≠ 0) := by
  unfold dedupOne
  by_cases hz : e.size = 0
  · simp [hz, a1 hz]
  · simp only [hz, if_false]
    cases hl : last.bind (lookupLast · e.path) with
    | none =>
      simp only
      split <;> simp [hz]
    | some r =>
      simp only
      by_cases hfp : r.fp = e.fp
      · simp only [hfp, if_true]
        have : r.hash = e.hash := by
          cases last with
          | none => simp at hl
          | some l =>
            simp only [Option.bind_some] at hl
            exact a2 l r rfl hl hfp
        simp [this]
      · simp only [hfp, if_false]
        split <;> simp [hz]

/-- The manifest the deduplication model computes for a tree is the manifest of the logical backup whose `stored`
flags are read off that manifest. -/
theorem recs_of_run (hashOf : List β → H) (last : Option (List (Rec H F String))) (fpf : String → F) :
    ∀ (es : List (Entry β)) (known : List H),
      ((eventsOf hashOf fpf es).map (·.path)).Nodup →
      (∀ p m d, (.file p m d : Entry β) ∈ es → ∀ l r, last = some l → lookupLast l (keyE (.file p m d : Entry β)) = some r →
        r.fp = fpf p → r.hash = hashOf d) →
      (records (runFiles (hashOf []) known last (eventsOf hashOf fpf es))).map (·.path) = (eventsOf hashOf fpf es).map (·.path) ∧
      ∀ (stored' : String → Bool),
        (∀ p m d, (.file p m d : Entry β) ∈ es → stored' p =
          uniqueOf (records (runFiles (hashOf []) known last (eventsOf hashOf fpf es))) (keyE (.file p m d : Entry β))) →
        es.filterMap (fun e => match e with
          | .file p _ d => some (⟨decide (d.length ≠ 0) && stored' p, hashOf d, fpf p, d.length, keyE e⟩ : Rec H F String)
          | _ => none) = records (runFiles (hashOf []) known last (eventsOf hashOf fpf es)) := by
  intro es
  induction es with
  | nil => intro known _ _; simp [eventsOf, runFiles, records]
  | cons e rest ih =>
    intro known hnd ha2
    have ha2' : ∀ p m d, (.file p m d : Entry β) ∈ rest → ∀ l r, last = some l → lookupLast l (keyE (.file p m d : Entry β)) = some r →
        r.fp = fpf p → r.hash = hashOf d := fun p m d h => ha2 p m d (List.mem_cons_of_mem _ h)
    cases e with
    | file p m d =>
      have hev : eventsOf hashOf fpf ((.file p m d : Entry β) :: rest) =
          ⟨keyE (.file p m d : Entry β), fpf p, d.length, hashOf d⟩ :: eventsOf hashOf fpf rest := by
        simp [eventsOf]
      rw [hev] at hnd ⊢
      simp only [List.map_cons, List.nodup_cons] at hnd
      obtain ⟨hrec, huz⟩ := dedupOne_record (hashOf []) known last (⟨keyE (.file p m d : Entry β), fpf p, d.length, hashOf d⟩ : FileEv H F String)
        (by intro h; simp only at h; have : d = [] := List.eq_nil_of_length_eq_zero h; rw [this])
        (by intro l r hl hr hfp; exact ha2 p m d (by simp) l r hl hr hfp)
      obtain ⟨ih1, ih2⟩ := ih (dedupOne (hashOf []) known last ⟨keyE (.file p m d : Entry β), fpf p, d.length, hashOf d⟩).known hnd.2 ha2'
      simp only [runFiles, records, List.map_cons]
      simp only [records] at ih1 ih2
      have hpath : (dedupOne (hashOf []) known last ⟨keyE (.file p m d : Entry β), fpf p, d.length, hashOf d⟩).record.path = keyE (.file p m d : Entry β) := by
        rw [hrec]
      refine ⟨by rw [hpath, ih1], ?_⟩
      intro stored' hst
      simp only [List.filterMap_cons]
      -- no later record has this path
      have hnone : uniqueOf (List.map (fun x => x.record) (runFiles (hashOf []) (dedupOne (hashOf []) known last ⟨keyE (.file p m d : Entry β), fpf p, d.length, hashOf d⟩).known last (eventsOf hashOf fpf rest)))
          (keyE (.file p m d : Entry β)) = false := by
        unfold uniqueOf
        rw [List.any_eq_false]
        intro r hr
        have : r.path ∈ (eventsOf hashOf fpf rest).map (·.path) := by
          rw [← ih1]; exact List.mem_map_of_mem (f := (·.path)) hr
        have hne : r.path ≠ keyE (.file p m d : Entry β) := fun h => hnd.1 (h ▸ this)
        simp [hne]
      have hhead : stored' p = (dedupOne (hashOf []) known last ⟨keyE (.file p m d : Entry β), fpf p, d.length, hashOf d⟩).record.unique := by
        rw [hst p m d (by simp)]
        simp only [runFiles, records, List.map_cons, uniqueOf, List.any_cons]
        have := hnone
        unfold uniqueOf at this
        rw [this, hpath]
        simp
      congr 1
      · rw [hrec, hhead]
        congr 1
        cases hu : (dedupOne (hashOf []) known last ⟨keyE (.file p m d : Entry β), fpf p, d.length, hashOf d⟩).record.unique with
        | false => simp
        | true => have := huz hu; simp only at this; simp [this]
      · apply ih2 stored'
        intro p' m' d' hin
        rw [hst p' m' d' (List.mem_cons_of_mem _ hin)]
        simp only [runFiles, records, List.map_cons, uniqueOf, List.any_cons]
        have hne : keyE (.file p m d : Entry β) ≠ keyE (.file p' m' d' : Entry β) := by
          intro h
          apply hnd.1
          rw [h]
          have : (⟨keyE (.file p' m' d' : Entry β), fpf p', d'.length, hashOf d'⟩ : FileEv H F String) ∈ eventsOf hashOf fpf rest :=
            List.mem_filterMap.mpr ⟨_, hin, rfl⟩
          exact List.mem_map_of_mem (f := (·.path)) this
        rw [hpath]
        simp [hne]
    | dir p m =>
      have hev : eventsOf hashOf fpf ((.dir p m : Entry β) :: rest) = eventsOf hashOf fpf rest := by simp [eventsOf]
      rw [hev] at hnd ⊢
      obtain ⟨ih1, ih2⟩ := ih known hnd ha2'
      exact ⟨ih1, fun stored' hst => by
        simp only [List.filterMap_cons]
        exact ih2 stored' (fun p' m' d' hin => hst p' m' d' (List.mem_cons_of_mem _ hin))⟩
    | symlink p m t =>
      have hev : eventsOf hashOf fpf ((.symlink p m t : Entry β) :: rest) = eventsOf hashOf fpf rest := by simp [eventsOf]
      rw [hev] at hnd ⊢
      obtain ⟨ih1, ih2⟩ := ih known hnd ha2'
      exact ⟨ih1, fun stored' hst => by
        simp only [List.filterMap_cons]
        exact ih2 stored' (fun p' m' d' hin => hst p' m' d' (List.mem_cons_of_mem _ hin))⟩
    | other p =>
      have hev : eventsOf hashOf fpf ((.other p : Entry β) :: rest) = eventsOf hashOf fpf rest := by simp [eventsOf]
      rw [hev] at hnd ⊢
      obtain ⟨ih1, ih2⟩ := ih known hnd ha2'
      exact ⟨ih1, fun stored' hst => by
        simp only [List.filterMap_cons]
        exact ih2 stored' (fun p' m' d' hin => hst p' m' d' (List.mem_cons_of_mem _ hin))⟩


theorem events_paths (hashOf : List β → H) (fpf : String → F) (lb : LBackup β) :
    (eventsOf hashOf fpf lb.es).map (·.path) = (recsOf hashOf lb).map (·.path) := by
  unfold eventsOf recsOf
  generalize lb.es = es
  induction es with
  | nil => rfl
  | cons e rest ih =>
    cases e with
    | file p m d =>
      simp only [List.filterMap_cons, recG, List.map_cons]
      rw [ih]
      rfl
    | dir p m => simpa [List.filterMap_cons, recG] using ih
    | symlink p m t => simpa [List.filterMap_cons, recG] using ih
    | other p => simpa [List.filterMap_cons, recG] using ih

/-- What a run may assume (the assumptions of C01/C02 for one run): the walk delivers a well-formed tree, and a file
whose (device, inode, mtime) equal those recorded for its path in the group's previous backup has the recorded
content (hash) and size. -/
def RunSound (hashOf : List β → H) (g : List (LBackupF β F)) (mask : List Bool) (es : List (Entry β)) (fpf : String → F) : Prop :=
  WFArchive es ∧
  ∀ p m d, (.file p m d : Entry β) ∈ es → ∀ l r, loadLast (view (g.map (recsD hashOf)) mask) = some l →
    lookupLast l (keyE (.file p m d : Entry β)) = some r → r.fp = fpf p → r.hash = hashOf d ∧ r.size = d.length

/-- The logical backup a run produces has exactly the manifest the deduplication model computes. -/
theorem recsD_runL (hashOf : List β → H) (g : List (LBackupF β F)) (mask : List Bool) (name : String)
    (es : List (Entry β)) (fpf : String → F) (pad : String → List β) (hs : RunSound hashOf g mask es fpf) :
    recsD hashOf (runL hashOf g mask name es fpf pad) =
      records (runBackup (hashOf []) (view (g.map (recsD hashOf)) mask) (eventsOf hashOf fpf es)) := by
  have hnd : ((eventsOf hashOf fpf es).map (·.path)).Nodup := by
    have := events_paths hashOf fpf (⟨name, es, fun _ => true, fun _ => []⟩ : LBackup β)
    simp only at this
    rw [this]
    exact recs_paths_nodup hashOf ⟨name, es, fun _ => true, fun _ => []⟩ hs.1
  obtain ⟨_, h2⟩ := recs_of_run hashOf (loadLast (view (g.map (recsD hashOf)) mask)) fpf es
    (loadKnown (view (g.map (recsD hashOf)) mask)) hnd
    (fun p m d hin l r hl hr hfp => (hs.2 p m d hin l r hl hr hfp).1)
  unfold recsD runL runBackup
  simp only
  exact h2 _ (fun p m d _ => rfl)

/-- The invariant kept along a history. -/
def InvL (hashOf : List β → H) (st : LStore β F) : Prop :=
  ∀ g ∈ st, (∀ b ∈ g, WFArchive b.lb.es) ∧ Resolvable (g.map (recsD hashOf))

def OpSoundL (hashOf : List β → H) (st : LStore β F) : LOp β F → Prop
  | .run _ es fpf mask newGroup _ =>
    match st.getLast?, newGroup with
    | some g, false => RunSound hashOf g mask es fpf
    | _, _ => RunSound hashOf ([] : List (LBackupF β F)) [] es fpf
  | .deleteGroups _ => True

theorem runL_es (hashOf : List β → H) (g : List (LBackupF β F)) (mask : List Bool) (name : String)
    (es : List (Entry β)) (fpf : String → F) (pad : String → List β) : (runL hashOf g mask name es fpf pad).lb.es = es := rfl

theorem stepL_inv (hashOf : List β → H) (st : LStore β F) (op : LOp β F) (hi : InvL hashOf st) (hs : OpSoundL hashOf st op) :
    InvL hashOf (stepL hashOf st op) := by
  cases op with
  | deleteGroups keep =>
    intro g hg
    exact hi g (keepMasked_sub st keep g hg)
  | run name es fpf mask newGroup pad =>
    have hfresh : ∀ (hs' : RunSound hashOf ([] : List (LBackupF β F)) [] es fpf),
        (∀ b ∈ [runL hashOf ([] : List (LBackupF β F)) [] name es fpf pad], WFArchive b.lb.es) ∧
        Resolvable ([runL hashOf ([] : List (LBackupF β F)) [] name es fpf pad].map (recsD hashOf)) := by
      intro hs'
      refine ⟨?_, ?_⟩
      · intro b hb
        simp only [List.mem_singleton] at hb
        subst hb
        exact hs'.1
      · simp only [List.map_cons, List.map_nil]
        rw [recsD_runL hashOf [] [] name es fpf pad hs']
        simpa [view] using new_group_fresh (hashOf []) (eventsOf hashOf fpf es)
    unfold stepL
    unfold OpSoundL at hs
    cases hl : st.getLast? with
    | none =>
      simp only [hl] at hs ⊢
      intro g hg
      rcases List.mem_append.mp hg with h | h
      · exact hi g h
      · simp only [List.mem_singleton] at h
        subst h
        exact hfresh hs
    | some glast =>
      cases newGroup with
      | true =>
        simp only [hl] at hs ⊢
        intro g hg
        rcases List.mem_append.mp hg with h | h
        · exact hi g h
        · simp only [List.mem_singleton] at h
          subst h
          exact hfresh hs
      | false =>
        simp only [hl] at hs ⊢
        intro g hg
        rcases List.mem_append.mp hg with h | h
        · exact hi g (List.dropLast_subset _ h)
        · simp only [List.mem_singleton] at h
          subst h
          obtain ⟨hwf, hres⟩ := hi glast (List.mem_of_getLast? hl)
          refine ⟨?_, ?_⟩
          · intro b hb
            rcases List.mem_append.mp hb with h' | h'
            · exact hwf b h'
            · simp only [List.mem_singleton] at h'
              subst h'
              exact hs.1
          · simp only [List.map_append, List.map_cons, List.map_nil]
            rw [recsD_runL hashOf glast mask name es fpf pad hs]
            apply resolvable_run (hashOf []) (glast.map (recsD hashOf)) mask (eventsOf hashOf fpf es) hres
            intro l hlast e he r hr hfp
            obtain ⟨ent, hent, hev⟩ := List.mem_filterMap.mp he
            cases ent with
            | file p m d =>
              simp only [Option.some.injEq] at hev
              subst hev
              exact (hs.2 p m d hent l r hlast hr hfp).2
            | dir p m => cases hev
            | symlink p m t => cases hev
            | other p => cases hev

/-- Along any history every group satisfies the invariant. -/
theorem history_inv (hashOf : List β → H) (ops : List (LOp β F)) (st : LStore β F) (hi : InvL hashOf st)
    (hs : ∀ (pre : List (LOp β F)) (op : LOp β F) (post : List (LOp β F)), ops = pre ++ op :: post →
        OpSoundL hashOf (pre.foldl (stepL hashOf) st) op) :
    InvL hashOf (ops.foldl (stepL hashOf) st) := by
  induction ops generalizing st with
  | nil => simpa using hi
  | cons op ops ih =>
    simp only [List.foldl_cons]
    apply ih
    · have := hs [] op ops rfl
      simp only [List.foldl_nil] at this
      exact stepL_inv hashOf st op hi this
    · intro pre op' post heq
      have := hs (op :: pre) op' post (by simp [heq])
      simpa using this

/-- From the hash-level invariant of C02 to the content-level hypothesis of `restore_exact`. -/
theorem resolvableL_of_resolvable (hashOf : List β → H) (hinj : ∀ x y, hashOf x = hashOf y → x = y)
    (g : List (LBackupF β F)) (hres : Resolvable (g.map (recsD hashOf))) (t : Nat) (lt : LBackupF β F) (hlt : g[t]? = some lt) :
    ResolvableL (g.map (·.lb)) t lt.lb := by
  intro b hb hext
  cases b with
  | dir p m => cases hext
  | symlink p m t' => cases hext
  | other p => cases hext
  | file p m d =>
    have hst : lt.lb.stored p = false := by
      simp only [isExtE, Bool.and_eq_true, Bool.not_eq_true'] at hext
      exact hext.2
    have hne : d ≠ [] := by
      simp only [isExtE, Bool.and_eq_true, Bool.not_eq_true', List.isEmpty_eq_false_iff] at hext
      exact hext.1
    -- the record of this file
    have hx : (⟨decide (d.length ≠ 0) && lt.lb.stored p, hashOf d, lt.fp p, d.length, keyE (.file p m d : Entry β)⟩ : Rec H F String) ∈ recsD hashOf lt :=
      List.mem_filterMap.mpr ⟨_, hb, rfl⟩
    -- the group up to the target is resolvable
    have hsplit : g.map (recsD hashOf) = (g.take (t + 1)).map (recsD hashOf) ++ (g.drop (t + 1)).map (recsD hashOf) := by
      rw [← List.map_append, List.take_append_drop]
    unfold Resolvable at hres
    rw [hsplit, List.flatten_append, resolvesIn_append] at hres
    have hltmem : lt ∈ g.take (t + 1) := by
      obtain ⟨hlen, hget⟩ := List.getElem?_eq_some_iff.mp hlt
      exact List.mem_take_iff_getElem.mpr ⟨t, Nat.lt_min.mpr ⟨by omega, hlen⟩, hget⟩
    have hxin : (⟨decide (d.length ≠ 0) && lt.lb.stored p, hashOf d, lt.fp p, d.length, keyE (.file p m d : Entry β)⟩ : Rec H F String) ∈
        ((g.take (t + 1)).map (recsD hashOf)).flatten :=
      List.mem_flatten.mpr ⟨recsD hashOf lt, List.mem_map_of_mem hltmem, hx⟩
    have hlen : d.length ≠ 0 := fun h => hne (List.eq_nil_of_length_eq_zero h)
    rcases hash_available [] _ hres.1 _ hxin hlen with h' | h'
    · cases h'
    · obtain ⟨u, hu, huu, huh⟩ := (mem_uniques _ _).mp h'
      obtain ⟨rl, hrl, hurl⟩ := List.mem_flatten.mp hu
      obtain ⟨bj, hbj, rfl⟩ := List.mem_map.mp hrl
      obtain ⟨j, hj, hgj⟩ := List.mem_take_iff_getElem.mp hbj
      obtain ⟨ent, hent, hrec⟩ := List.mem_filterMap.mp hurl
      cases ent with
      | dir p' m' => cases hrec
      | symlink p' m' t' => cases hrec
      | other p' => cases hrec
      | file p' m' d' =>
        simp only [Option.some.injEq] at hrec
        subst hrec
        simp only [Bool.and_eq_true, decide_eq_true_eq] at huu
        simp only at huh
        have hdd : d' = d := hinj _ _ huh
        have hj2 := Nat.lt_min.mp hj
        have hjt : j ≤ t := by omega
        have hgj' : g[j]? = some bj := by
          rw [List.getElem?_eq_getElem hj2.2, ← hgj]
        by_cases hjeq : j = t
        · left
          subst hjeq
          rw [hlt] at hgj'
          have : lt = bj := Option.some.inj hgj'
          subst this
          exact ⟨.file p' m' d', hent, by simp [isOwnE, huu.2], by simp [contentE, hdd]⟩
        · right
          refine ⟨j, by omega, bj.lb, by rw [List.getElem?_map, hgj']; rfl, p', m', d', hent, huu.2, by simp [contentE, hdd]⟩

end Vsb.Restore
