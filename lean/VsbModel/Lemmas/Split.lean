import VsbModel.Model.Split

namespace Vsb.Split
variable {α : Type}

def total (bs : List (Body α)) : Nat := (bs.map (·.bytes.length)).sum

/-- Concatenation of bodies stored newest-first. -/
def catRev : List (Body α) → List α
  | [] => []
  | b :: bs => catRev bs ++ b.bytes

/-- Offsets are cumulative (newest-first list). -/
def OffsOk : List (Body α) → Prop
  | [] => True
  | b :: bs => b.offset = total bs ∧ OffsOk bs

def Full (max : Option Nat) (b : Body α) : Prop :=
  match max with
  | some m => b.bytes.length = m
  | none => False

/-- Loop-head invariant relating splitter state and consumer view. -/
structure Inv (max : Option Nat) (s : St) (v : View α) : Prop where
  notBad : v.bad = false
  noFinal : v.final = none
  noError : v.error = none
  openEq : v.isOpen = s.isOpen
  offs : OffsOk v.bodies
  offEq : s.offset = total v.bodies
  closedFull : s.isOpen = false → ∀ b ∈ v.bodies, Full max b
  openShape : s.isOpen = true → ∃ b bs, v.bodies = b :: bs ∧ 0 < b.bytes.length ∧
      (∀ m, max = some m → b.bytes.length = s.streamSize ∧ s.streamSize ≤ m) ∧ ∀ x ∈ bs, Full max x

@[simp] theorem total_nil : total ([] : List (Body α)) = 0 := rfl
@[simp] theorem total_cons (b : Body α) (bs : List (Body α)) : total (b :: bs) = b.bytes.length + total bs := by
  simp [total]

theorem catRev_length (bs : List (Body α)) : (catRev bs).length = total bs := by
  induction bs with
  | nil => simp [catRev]
  | cons b bs ih => simp [catRev, ih]; omega

theorem view_append (xs ys : List (Ev α)) : view (xs ++ ys) = ys.foldl View.apply (view xs) := by
  simp [view, List.foldl_append]

/-- Positive maximum (or unlimited). -/
def MaxOk : Option Nat → Prop
  | some m => 0 < m
  | none => True

/-- A chunk that fits is appended to the open body. -/
theorem inv_chunk_open {max : Option Nat} {s : St} {v : View α} (h : Inv max s v) (ho : s.isOpen = true)
    (d : List α) (hfit : ∀ m, max = some m → s.streamSize + d.length ≤ m) :
    Inv max { s with streamSize := s.streamSize + d.length, offset := s.offset + d.length }
      (v.apply (Ev.chunk d)) ∧
    catRev (v.apply (Ev.chunk d)).bodies = catRev v.bodies ++ d := by
  obtain ⟨b, bs, hb, hpos, hmx, hbs⟩ := h.openShape ho
  have hvo : v.isOpen = true := by rw [h.openEq, ho]
  have hv : v.apply (Ev.chunk d) = { v with bodies := { b with bytes := b.bytes ++ d } :: bs } := by
    simp [View.apply, hvo, hb]
  have hoffs := h.offs
  have hoff := h.offEq
  rw [hb] at hoffs hoff
  simp only [OffsOk, total_cons] at hoffs hoff
  rw [hv]
  refine ⟨⟨h.notBad, h.noFinal, h.noError, by simpa using h.openEq, ?_, ?_, ?_, ?_⟩, ?_⟩
  · exact ⟨hoffs.1, hoffs.2⟩
  · simp; omega
  · intro hc; simp [ho] at hc
  · intro _
    refine ⟨_, _, rfl, by simp; omega, ?_, hbs⟩
    intro m hm
    have := hmx m hm
    have := hfit m hm
    simp; omega
  · simp [catRev, hb, List.append_assoc]

/-- Closing the open body when it is full (or closing at all in the unlimited case is never done
by the inner loop, so `max = some m`). -/
theorem inv_close {m : Nat} {s : St} {v : View α} (h : Inv (some m) s v) (ho : s.isOpen = true)
    (hfull : s.streamSize = m) :
    Inv (some m) { s with isOpen := false } (v.apply Ev.close) ∧
    catRev (v.apply Ev.close).bodies = catRev v.bodies := by
  obtain ⟨b, bs, hb, hpos, hmx, hbs⟩ := h.openShape ho
  have hvo : v.isOpen = true := by rw [h.openEq, ho]
  have hv : v.apply Ev.close = { v with isOpen := false } := by simp [View.apply, hvo]
  rw [hv]
  refine ⟨⟨h.notBad, h.noFinal, h.noError, rfl, h.offs, h.offEq, ?_, ?_⟩, rfl⟩
  · intro _ x hx
    simp only [hb, List.mem_cons] at hx
    rcases hx with rfl | hx
    · have := hmx m rfl; simp [Full]; omega
    · exact hbs x hx
  · intro hc; simp at hc

/-- Opening a new stream and sending its first (non-empty, fitting) chunk. -/
theorem inv_stream_chunk {max : Option Nat} {s : St} {v : View α} (h : Inv max s v) (ho : s.isOpen = false)
    (d : List α) (hd : 0 < d.length) (hfit : ∀ m, max = some m → d.length ≤ m) :
    Inv max { isOpen := true, streamSize := d.length, offset := s.offset + d.length }
      ((v.apply (Ev.stream s.offset)).apply (Ev.chunk d)) ∧
    catRev ((v.apply (Ev.stream s.offset)).apply (Ev.chunk d)).bodies = catRev v.bodies ++ d := by
  have hvo : v.isOpen = false := by rw [h.openEq, ho]
  have hv : (v.apply (Ev.stream s.offset)).apply (Ev.chunk d) =
      { v with bodies := ⟨s.offset, d⟩ :: v.bodies, isOpen := true } := by
    simp [View.apply, hvo, h.noFinal, h.noError]
  rw [hv]
  refine ⟨⟨h.notBad, h.noFinal, h.noError, rfl, ⟨h.offEq, h.offs⟩, ?_, ?_, ?_⟩, ?_⟩
  · simp; have := h.offEq; omega
  · intro hc; simp at hc
  · intro _
    refine ⟨_, _, rfl, hd, ?_, h.closedFull ho⟩
    intro m hm; exact ⟨rfl, hfit m hm⟩
  · simp [catRev]


/-- What `feedAux` guarantees (unlimited consumer). -/
structure FeedOk (max : Option Nat) (data : List α) (acc : List (Ev α)) (o : FeedOut α) : Prop where
  notFailed : o.failed = false
  budget : o.budget = none
  inv : Inv max o.st (view o.evs)
  cat : catRev (view o.evs).bodies = catRev (view acc).bodies ++ data
  ext : ∃ e, o.evs = acc ++ e

theorem feedAux_inv (max : Option Nat) (hmax : MaxOk max) :
    ∀ (fuel : Nat) (s : St) (data : List α) (acc : List (Ev α)),
      2 * data.length + (if s.isOpen then 1 else 0) + 1 ≤ fuel →
      Inv max s (view acc) →
      FeedOk max data acc (feedAux max fuel s none data acc) := by
  intro fuel
  induction fuel with
  | zero => intro s data acc h; omega
  | succ fuel ih =>
    intro s data acc hfuel hinv
    unfold feedAux
    by_cases hlen : data.length = 0
    · have : data = [] := List.eq_nil_of_length_eq_zero hlen
      subst this
      simp only [List.length_nil, if_true]
      exact ⟨rfl, rfl, hinv, by simp, ⟨[], by simp⟩⟩
    · simp only [hlen, if_false]
      have hdpos : 0 < data.length := by omega
      cases hopen : s.isOpen with
      | true =>
        simp only [if_true]
        cases max with
        | none =>
          simp only [trySend, ge_iff_le, Nat.le_refl, if_true]
          obtain ⟨hi, hc⟩ := inv_chunk_open hinv hopen data (by intro m hm; cases hm)
          exact ⟨rfl, rfl, by rw [view_append]; exact hi, by rw [view_append]; exact hc, ⟨_, rfl⟩⟩
        | some m =>
          obtain ⟨b, bs, hb, hbpos, hbmax, hbs⟩ := hinv.openShape hopen
          obtain ⟨hbs1, hbs2⟩ := hbmax m rfl
          simp only []
          by_cases hfit : m - s.streamSize ≥ data.length
          · simp only [hfit, if_true, trySend]
            obtain ⟨hi, hc⟩ := inv_chunk_open hinv hopen data (by intro m' hm; cases hm; omega)
            exact ⟨rfl, rfl, by rw [view_append]; exact hi, by rw [view_append]; exact hc, ⟨_, rfl⟩⟩
          · simp only [hfit, if_false]
            by_cases havail : m - s.streamSize > 0
            · simp only [havail, if_true, trySend]
              have htake : (data.take (m - s.streamSize)).length = m - s.streamSize := by
                simp [List.length_take]; omega
              obtain ⟨hi, hc⟩ := inv_chunk_open hinv hopen (data.take (m - s.streamSize))
                (by intro m' hm; cases hm; omega)
              obtain ⟨hi2, hc2⟩ := inv_close hi hopen (by simp [htake]; omega)
              have hv : view (acc ++ [Ev.chunk (data.take (m - s.streamSize)), Ev.close]) =
                  ((view acc).apply (Ev.chunk (data.take (m - s.streamSize)))).apply Ev.close := by
                rw [view_append]; rfl
              have hf : 2 * (data.drop (m - s.streamSize)).length + (if false = true then 1 else 0) + 1 ≤ fuel := by
                simp [List.length_drop]; simp [hopen] at hfuel; omega
              rw [htake] at hi2
              have r := ih (St.mk false (s.streamSize + (m - s.streamSize)) (s.offset + (m - s.streamSize))) (data.drop (m - s.streamSize)) _ hf (by rw [hv]; exact hi2)
              refine ⟨r.notFailed, r.budget, r.inv, ?_, ?_⟩
              · rw [r.cat, hv, hc2, hc, List.append_assoc, List.take_append_drop]
              · obtain ⟨e, he⟩ := r.ext; exact ⟨_, by rw [he, List.append_assoc]⟩
            · simp only [havail, if_false]
              obtain ⟨hi2, hc2⟩ := inv_close hinv hopen (by omega)
              have hv : view (acc ++ [Ev.close]) = (view acc).apply Ev.close := by
                rw [view_append]; rfl
              have hf : 2 * data.length + (if ({ s with isOpen := false } : St).isOpen = true then 1 else 0) + 1 ≤ fuel := by
                simp; simp [hopen] at hfuel; omega
              have r := ih { s with isOpen := false } data _ hf (by rw [hv]; exact hi2)
              refine ⟨r.notFailed, r.budget, r.inv, ?_, ?_⟩
              · rw [r.cat, hv, hc2]
              · obtain ⟨e, he⟩ := r.ext; exact ⟨_, by rw [he, List.append_assoc]⟩
      | false =>
        simp only [Bool.false_eq_true, if_false, trySend]
        have hvs : ∀ d : List α, view (acc ++ [Ev.stream s.offset] ++ [Ev.chunk d]) =
            ((view acc).apply (Ev.stream s.offset)).apply (Ev.chunk d) := by
          intro d; rw [view_append, view_append]; rfl
        cases max with
        | none =>
          simp only [ge_iff_le, Nat.le_refl, if_true]
          obtain ⟨hi, hc⟩ := inv_stream_chunk hinv hopen data hdpos (by intro m hm; cases hm)
          refine ⟨rfl, rfl, ?_, ?_, ⟨[Ev.stream s.offset, Ev.chunk data], by simp⟩⟩
          · rw [hvs]; simpa using hi
          · rw [hvs]; exact hc
        | some m =>
          have hm : 0 < m := hmax
          simp only [Nat.sub_zero]
          by_cases hfit : m ≥ data.length
          · simp only [hfit, if_true]
            obtain ⟨hi, hc⟩ := inv_stream_chunk hinv hopen data hdpos (by intro m' hm'; cases hm'; omega)
            refine ⟨rfl, rfl, ?_, ?_, ⟨[Ev.stream s.offset, Ev.chunk data], by simp⟩⟩
            · rw [hvs]; simpa using hi
            · rw [hvs]; exact hc
          · simp only [hfit, if_false, hm, if_true]
            have htake : (data.take m).length = m := by simp [List.length_take]; omega
            obtain ⟨hi, hc⟩ := inv_stream_chunk hinv hopen (data.take m) (by omega)
              (by intro m' hm'; cases hm'; omega)
            obtain ⟨hi2, hc2⟩ := inv_close hi rfl (by simp [htake])
            have hv : view (acc ++ [Ev.stream s.offset] ++ [Ev.chunk (data.take m), Ev.close]) =
                (((view acc).apply (Ev.stream s.offset)).apply (Ev.chunk (data.take m))).apply Ev.close := by
              rw [view_append, view_append]; rfl
            have hf : 2 * (data.drop m).length + (if false = true then 1 else 0) + 1 ≤ fuel := by
              simp [List.length_drop]; simp [hopen] at hfuel; omega
            rw [htake] at hi2
            have r := ih (St.mk false (0 + m) (s.offset + m)) (data.drop m) _ hf
              (by rw [hv]; simpa using hi2)
            refine ⟨r.notFailed, r.budget, r.inv, ?_, ?_⟩
            · rw [r.cat, hv, hc2, hc, List.append_assoc, List.take_append_drop]
            · obtain ⟨e, he⟩ := r.ext; exact ⟨[Ev.stream s.offset, Ev.chunk (data.take m), Ev.close] ++ e, by rw [he]; simp [List.append_assoc]⟩


/-! ### Run level -/

/-- Payload bytes before the first terminal message. -/
def prefixData : List (Msg α) → List α
  | .payload d :: rest => d ++ prefixData rest
  | _ => []

/-- First non-payload message and what follows it. -/
def firstTerm : List (Msg α) → Option (Msg α × List (Msg α))
  | [] => none
  | .payload _ :: rest => firstTerm rest
  | m :: rest => some (m, rest)

/-- What the consumer is entitled to, whatever happened upstream. -/
structure Good (max : Option Nat) (v : View α) : Prop where
  notBad : v.bad = false
  offs : OffsOk v.bodies
  nonempty : ∀ b ∈ v.bodies, 0 < b.bytes.length
  leMax : ∀ m, max = some m → ∀ b ∈ v.bodies, b.bytes.length ≤ m
  butLastFull : ∀ m, max = some m → ∀ b ∈ v.bodies.tail, b.bytes.length = m
  single : max = none → v.bodies.length ≤ 1
  notBoth : v.final = none ∨ v.error = none

theorem Inv.good {max : Option Nat} (hmax : MaxOk max) {s : St} {v : View α} (h : Inv max s v) : Good max v := by
  cases ho : s.isOpen with
  | false =>
    have hf := h.closedFull ho
    cases max with
    | none =>
      have hnil : v.bodies = [] := by
        cases hbd : v.bodies with
        | nil => rfl
        | cons x xs => exact absurd (hf x (by simp [hbd])) (by simp [Full])
      refine ⟨h.notBad, h.offs, ?_, ?_, ?_, ?_, Or.inl h.noFinal⟩ <;> simp [hnil]
    | some m =>
      have hm : 0 < m := hmax
      have hf' : ∀ b ∈ v.bodies, b.bytes.length = m := fun b hb => hf b hb
      refine ⟨h.notBad, h.offs, ?_, ?_, ?_, ?_, Or.inl h.noFinal⟩
      · intro b hb; have := hf' b hb; omega
      · intro m' hm' b hb; cases hm'; have := hf' b hb; omega
      · intro m' hm' b hb; cases hm'; exact hf' b (List.mem_of_mem_tail hb)
      · intro hc; cases hc
  | true =>
    obtain ⟨b, bs, hb, hpos, hmx, hbs⟩ := h.openShape ho
    cases max with
    | none =>
      have hnil : bs = [] := by
        cases bs with
        | nil => rfl
        | cons x xs => exact absurd (hbs x (by simp)) (by simp [Full])
      subst hnil
      refine ⟨h.notBad, h.offs, ?_, ?_, ?_, ?_, Or.inl h.noFinal⟩ <;> simp [hb]
      exact hpos
    | some m =>
      have hm : 0 < m := hmax
      obtain ⟨h1, h2⟩ := hmx m rfl
      have hf' : ∀ x ∈ bs, x.bytes.length = m := fun x hx => hbs x hx
      refine ⟨h.notBad, h.offs, ?_, ?_, ?_, ?_, Or.inl h.noFinal⟩
      · intro x hx; rw [hb] at hx; simp only [List.mem_cons] at hx
        rcases hx with rfl | hx
        · exact hpos
        · have := hf' x hx; omega
      · intro m' hm' x hx; cases hm'; rw [hb] at hx; simp only [List.mem_cons] at hx
        rcases hx with rfl | hx
        · omega
        · have := hf' x hx; omega
      · intro m' hm' x hx; cases hm'; rw [hb] at hx; exact hf' x hx
      · intro hc; cases hc

/-- Closing whatever is open before a terminal message (the body may be partial). -/
theorem good_close {max : Option Nat} (hmax : MaxOk max) {s : St} {v : View α} (h : Inv max s v) :
    let v' := if s.isOpen then v.apply Ev.close else v
    Good max v' ∧ v'.isOpen = false ∧ v'.bodies = v.bodies ∧ v'.final = none ∧ v'.error = none := by
  have hg := h.good hmax
  cases ho : s.isOpen with
  | false =>
    simp only [Bool.false_eq_true, if_false]
    exact ⟨hg, by rw [h.openEq, ho], trivial, h.noFinal, h.noError⟩
  | true =>
    have hvo : v.isOpen = true := by rw [h.openEq, ho]
    simp only [if_true]
    have hv : v.apply Ev.close = { v with isOpen := false } := by simp [View.apply, hvo]
    rw [hv]
    exact ⟨⟨hg.notBad, hg.offs, hg.nonempty, hg.leMax, hg.butLastFull, hg.single, hg.notBoth⟩,
      by simp, by simp, h.noFinal, h.noError⟩

/-- Specification of a complete run with a consumer that never stops. -/
structure RunSpec (max : Option Nat) (pre : List (Ev α)) (s : St) (msgs : List (Msg α))
    (out : List (Ev α) × Res) : Prop where
  ext : ∃ e, out.1 = pre ++ e
  good : Good max (view out.1)
  cat : catRev (view out.1).bodies = catRev (view pre).bodies ++ prefixData msgs
  hangup : firstTerm msgs = none → out.2 = .recvClosed ∧ (view out.1).final = none ∧ (view out.1).error = none
  eof : ∀ c rest, firstTerm msgs = some (.eof c, rest) →
      (view out.1).final = some (s.offset + (prefixData msgs).length, c) ∧ (view out.1).error = none ∧
      (view out.1).isOpen = false ∧ out.1.getLast? = some (Ev.eof (s.offset + (prefixData msgs).length) c) ∧
      out.2 = (if rest.isEmpty then .ok else .afterTermination)
  err : ∀ e rest, firstTerm msgs = some (.err e, rest) →
      (view out.1).error = some e ∧ (view out.1).final = none ∧
      (view out.1).isOpen = false ∧ out.1.getLast? = some (Ev.err e) ∧
      out.2 = (if rest.isEmpty then .ok else .afterTermination)

theorem run_spec (max : Option Nat) (hmax : MaxOk max) :
    ∀ (msgs : List (Msg α)) (s : St) (pre : List (Ev α)), Inv max s (view pre) →
      RunSpec max pre s msgs (run max s none msgs pre) := by
  intro msgs
  induction msgs with
  | nil =>
    intro s pre h
    simp only [run]
    obtain ⟨hg, hcl, hbd, hfin, herr⟩ := good_close hmax h
    have hpre : view (if s.isOpen = true then pre ++ [Ev.close] else pre) =
        (if s.isOpen = true then (view pre).apply Ev.close else view pre) := by
      split
      · rw [view_append]; rfl
      · rfl
    have hext : ∃ e, (if s.isOpen = true then pre ++ [Ev.close] else pre) = pre ++ e := by
      split
      · exact ⟨_, rfl⟩
      · exact ⟨[], by simp⟩
    refine ⟨hext, by rw [hpre]; exact hg, by rw [hpre, hbd]; simp [prefixData], ?_, ?_, ?_⟩
    · intro _; exact ⟨rfl, by rw [hpre]; exact hfin, by rw [hpre]; exact herr⟩
    · intro c rest hc; simp [firstTerm] at hc
    · intro c rest hc; simp [firstTerm] at hc
  | cons msg rest ih =>
    intro s pre h
    cases msg with
    | payload d =>
      simp only [run, feed]
      have hf := feedAux_inv max hmax (2 * d.length + 2) s d pre (by split <;> omega) h
      simp only [hf.notFailed, Bool.false_eq_true, if_false, hf.budget]
      have r := ih _ _ hf.inv
      obtain ⟨e1, he1⟩ := hf.ext
      obtain ⟨e2, he2⟩ := r.ext
      have hoff : (feedAux max (2 * d.length + 2) s none d pre).st.offset = s.offset + d.length := by
        have h1 := hf.inv.offEq
        have h2 := h.offEq
        have h3 := congrArg List.length hf.cat
        rw [List.length_append, catRev_length, catRev_length] at h3
        omega
      refine ⟨⟨e1 ++ e2, by rw [he2, he1, List.append_assoc]⟩, r.good, ?_, ?_, ?_, ?_⟩
      · rw [r.cat, hf.cat]; simp [prefixData, List.append_assoc]
      · intro hn; exact r.hangup (by simpa [firstTerm] using hn)
      · intro c rest' hc
        have := r.eof c rest' (by simpa [firstTerm] using hc)
        simpa [prefixData, hoff, Nat.add_assoc] using this
      · intro c rest' hc
        exact r.err c rest' (by simpa [firstTerm] using hc)
    | eof c =>
      simp only [run, trySend]
      obtain ⟨hg, hcl, hbd, hfin, herr⟩ := good_close hmax h
      have hpre : view (if s.isOpen = true then pre ++ [Ev.close] else pre) =
          (if s.isOpen = true then (view pre).apply Ev.close else view pre) := by
        split
        · rw [view_append]; rfl
        · rfl
      generalize hacc : (if s.isOpen = true then pre ++ [Ev.close] else pre) = acc at hpre
      generalize hv' : (if s.isOpen = true then (view pre).apply Ev.close else view pre) = v' at *
      have hve : view (acc ++ [Ev.eof s.offset c]) = { v' with final := some (s.offset, c) } := by
        rw [view_append, hpre]; simp [View.apply, hcl, hfin, herr]
      have hext : ∃ e, acc = pre ++ e := by
        rw [← hacc]; split
        · exact ⟨_, rfl⟩
        · exact ⟨[], by simp⟩
      obtain ⟨e0, he0⟩ := hext
      refine ⟨⟨e0 ++ [Ev.eof s.offset c], by simp [he0]⟩, ?_, ?_, ?_, ?_, ?_⟩
      · simp only [hve]
        exact ⟨hg.notBad, hg.offs, hg.nonempty, hg.leMax, hg.butLastFull, hg.single, Or.inr herr⟩
      · simp only [hve, hbd, prefixData, List.append_nil]
      · intro hn; simp [firstTerm] at hn
      · intro c' rest' hc
        simp only [firstTerm, Option.some.injEq, Prod.mk.injEq, Msg.eof.injEq] at hc
        obtain ⟨rfl, rfl⟩ := hc
        simp only [hve, prefixData, List.length_nil, Nat.add_zero]
        exact ⟨by simp, herr, hcl, by simp, by simp⟩
      · intro e rest' hc; simp [firstTerm] at hc
    | err e =>
      simp only [run, trySend]
      obtain ⟨hg, hcl, hbd, hfin, herr⟩ := good_close hmax h
      have hpre : view (if s.isOpen = true then pre ++ [Ev.close] else pre) =
          (if s.isOpen = true then (view pre).apply Ev.close else view pre) := by
        split
        · rw [view_append]; rfl
        · rfl
      generalize hacc : (if s.isOpen = true then pre ++ [Ev.close] else pre) = acc at hpre
      generalize hv' : (if s.isOpen = true then (view pre).apply Ev.close else view pre) = v' at *
      have hve : view (acc ++ [Ev.err e]) = { v' with error := some e } := by
        rw [view_append, hpre]; simp [View.apply, hcl, hfin, herr]
      have hext : ∃ e, acc = pre ++ e := by
        rw [← hacc]; split
        · exact ⟨_, rfl⟩
        · exact ⟨[], by simp⟩
      obtain ⟨e0, he0⟩ := hext
      refine ⟨⟨e0 ++ [Ev.err e], by simp [he0]⟩, ?_, ?_, ?_, ?_, ?_⟩
      · simp only [hve]
        exact ⟨hg.notBad, hg.offs, hg.nonempty, hg.leMax, hg.butLastFull, hg.single, Or.inl hfin⟩
      · simp only [hve, hbd, prefixData, List.append_nil]
      · intro hn; simp [firstTerm] at hn
      · intro c' rest' hc; simp [firstTerm] at hc
      · intro e' rest' hc
        simp only [firstTerm, Option.some.injEq, Prod.mk.injEq, Msg.err.injEq] at hc
        obtain ⟨rfl, rfl⟩ := hc
        simp only [hve]
        exact ⟨by simp, hfin, hcl, by simp, by simp⟩

theorem inv_init (max : Option Nat) : Inv max ({} : St) (view ([] : List (Ev α))) := by
  refine ⟨rfl, rfl, rfl, rfl, trivial, rfl, ?_, ?_⟩
  · intro _ b hb; simp [view] at hb
  · intro h; simp at h

end Vsb.Split
