import VsbModel.Lemmas.RestoreGroupLater
set_option linter.unusedSimpArgs false
set_option linter.unusedSectionVars false
set_option linter.unusedVariables false

/-!
The final metadata pass, and the execution theorem: a plan satisfying `PlanFacts` is carried out without a
complaint and leaves exactly the tree the target backup describes.
-/
namespace Vsb.Restore
variable {H β : Type} [DecidableEq H]

/-- `applyMeta` with nothing pending, on distinct existing paths: each listed path gets its metadata. -/
theorem applyMeta_view : ∀ (l : List (FPath × Meta)) (fs : FS β), (l.map (·.1)).Nodup → (∀ x ∈ l, fsGet fs x.1 ≠ none) →
    ∃ fs', applyMeta [] l fs = some fs' ∧
      (∀ q m, (q, m) ∈ l → fsGet fs' q = (fsGet fs q).map (setMetaNode m)) ∧
      (∀ q, (∀ m, (q, m) ∉ l) → fsGet fs' q = fsGet fs q) := by
  intro l
  induction l with
  | nil => intro fs _ _; exact ⟨fs, rfl, fun q m h => absurd h List.not_mem_nil, fun q _ => rfl⟩
  | cons x rest ih =>
    intro fs hn hex
    obtain ⟨fp, m⟩ := x
    simp only [List.map_cons, List.nodup_cons] at hn
    cases hg : fsGet fs fp with
    | none => exact absurd hg (hex (fp, m) (by simp))
    | some node =>
      obtain ⟨fs1, h1, hv1⟩ := fsSetMeta_ok fs fp m node hg
      have hex1 : ∀ x ∈ rest, fsGet fs1 x.1 ≠ none := by
        intro x hx
        rw [hv1]
        have hne : x.1 ≠ fp := by
          intro h
          apply hn.1
          rw [← h]
          exact List.mem_map_of_mem (f := (·.1)) hx
        simp only [hne, if_false]
        exact hex x (List.mem_cons_of_mem _ hx)
      obtain ⟨fs2, h2, hv2a, hv2b⟩ := ih fs1 hn.2 hex1
      refine ⟨fs2, ?_, ?_, ?_⟩
      · simp only [applyMeta, List.contains_nil, Bool.false_eq_true, if_false, h1, h2]
      · intro q m' hq
        rcases List.mem_cons.mp hq with heq | hin
        · simp only [Prod.mk.injEq] at heq
          obtain ⟨rfl, rfl⟩ := heq
          have hnot : ∀ m'', (q, m'') ∉ rest := by
            intro m'' hin
            apply hn.1
            exact List.mem_map_of_mem (f := (·.1)) hin
          rw [hv2b q hnot, hv1, hg]
          simp
        · have hne : q ≠ fp := by
            intro h
            apply hn.1
            rw [← h]
            exact List.mem_map_of_mem (f := (·.1)) hin
          rw [hv2a q m' hin, hv1]
          simp [hne]
      · intro q hq
        have hne : q ≠ fp := by
          intro h
          exact hq m (by rw [h]; simp)
        rw [hv2b q (fun m' hin => hq m' (List.mem_cons_of_mem _ hin)), hv1]
        simp [hne]

theorem mem_schedT (stored : String → Bool) (es : List (Entry β)) (fp : FPath) (m : Meta) :
    (fp, m) ∈ schedT stored es ↔ ∃ e ∈ es, fpOf e = fp ∧
      ((∃ p, e = .dir p m) ∨ (∃ p d, e = .file p m d ∧ isExtE stored e = true)) := by
  unfold schedT
  rw [List.mem_filterMap]
  constructor
  · rintro ⟨e, he, h⟩
    cases e with
    | dir p m' =>
      simp only [Option.some.injEq, Prod.mk.injEq] at h
      obtain ⟨h1, rfl⟩ := h
      exact ⟨_, he, h1, Or.inl ⟨p, rfl⟩⟩
    | file p m' d =>
      simp only at h
      split at h
      · rename_i hx
        simp only [Option.some.injEq, Prod.mk.injEq] at h
        obtain ⟨h1, rfl⟩ := h
        exact ⟨_, he, h1, Or.inr ⟨p, d, rfl, hx⟩⟩
      · cases h
    | symlink p m' t => cases h
    | other p => cases h
  · rintro ⟨e, he, hfp, h⟩
    refine ⟨e, he, ?_⟩
    rcases h with ⟨p, rfl⟩ | ⟨p, d, rfl, hx⟩
    · simp [hfp]
    · simp [hfp, hx]

theorem schedT_keys_sublist (stored : String → Bool) (es : List (Entry β)) :
    List.Sublist ((schedT stored es).map (·.1)) (es.map fpOf) := by
  induction es with
  | nil => exact List.Sublist.slnil
  | cons e rest ih =>
    have hcons : schedT stored (e :: rest) = schedT stored [e] ++ schedT stored rest := by
      simp [schedT, List.filterMap_cons]
      cases e <;> simp <;> split <;> simp
    rw [hcons, List.map_append, List.map_cons]
    cases e with
    | dir p m => exact ih.cons_cons _
    | file p m d =>
      by_cases hx : isExtE stored (.file p m d : Entry β) = true
      · have : schedT stored [(.file p m d : Entry β)] = [(fpOf (.file p m d : Entry β), m)] := by simp [schedT, hx]
        rw [this]
        exact ih.cons_cons _
      · have : schedT stored [(.file p m d : Entry β)] = [] := by simp [schedT, hx]
        rw [this]
        exact ih.cons _
    | symlink p m t => exact ih.cons _
    | other p => exact ih.cons _

/-- What the planner must deliver for the execution theorem (proved of `plan` in `Lemmas/PlanFacts`). -/
structure PlanFacts (hashOf : List β → H) (lg : List (LBackup β)) (t : Nat) (lt : LBackup β) (p : Plan H) : Prop where
  steps : ∃ F0 rest, p.steps = ⟨t, F0⟩ :: rest ∧ TCtx hashOf lt.es lt.stored F0 p.externFiles ∧
    (∀ s ∈ rest, ∃ lb, lg[s.backup]? = some lb ∧ LStep hashOf lt.stored lt.es p.externFiles lb s.files) ∧
    p.externFiles = F0.flatMap (fun kv => kv.2.paths.dropLast) ++ rest.flatMap (fun s => s.files.flatMap (·.2.paths))
  missing : p.missingFiles = []

/-- **Execution.**  Carrying out such a plan on the rendered group ends with exit status 0 and the tree of the
target backup, node for node.  (`group`: any stored group whose backups, as far as `lg` describes them, are the
rendered ones; what follows them is arbitrary.) -/
theorem exec_ok (hashOf : List β → H) (lg : List (LBackup β)) (group : List (Backup H β))
    (hG : ∀ (j : Nat) (lb : LBackup β), lg[j]? = some lb → group[j]? = some (render hashOf lb))
    (t : Nat) (lt : LBackup β) (hlt : lg[t]? = some lt)
    (p : Plan H) (pf : PlanFacts hashOf lg t lt p) :
    ∃ st, runSteps hashOf group p.steps true
        ({ ok := true, pending := p.externFiles, missing := p.missingFiles } : RSt β) = some st ∧
      ∃ fs, applyMeta st.pending st.scheduled.reverse st.fs = some fs ∧
        (st.ok && st.pending.isEmpty && st.preCreated.isEmpty) = true ∧
        ∀ q, fsGet fs q = fsGet (fsOf lt.es) q := by
  obtain ⟨F0, rest, hsteps, ctx, hrest, hext⟩ := pf.steps
  rw [pf.missing]
  have wf := ctx.wf
  have hgrp : group[t]? = some (render hashOf lt) := hG _ _ hlt
  -- the target step
  obtain ⟨st1, seen1, h1, inv1⟩ := target_entries hashOf lt.stored lt.pad lt.es F0 p.externFiles ctx lt.es [] _ [] rfl
    (tinv_init lt.stored lt.es F0 p.externFiles ctx.extNodup)
  have hall : F0.all (fun f => seen1.contains f.1) = true := by
    rw [List.all_eq_true]
    intro kv hkv
    obtain ⟨a, ha, hown, hk, _⟩ := ctx.f0_keys kv hkv
    have := inv1.seenOk a ha hown
    rw [hk]
    simpa using this
  have hstep1 : processStep hashOf (render hashOf lt) ⟨t, F0⟩ true
      ({ ok := true, pending := p.externFiles, missing := [] } : RSt β) = some st1 := by
    unfold processStep
    simp only [render, h1, Bool.not_true, Bool.false_eq_true, if_false]
    rw [rst_ok_eta st1 _ inv1.ok hall]
  have sinv1 := SInv.ofT ctx inv1
  -- the later steps
  have hnodup : (F0.flatMap (fun kv => kv.2.paths.dropLast) ++ rest.flatMap (fun s => s.files.flatMap (·.2.paths))).Nodup := by
    rw [← hext]; exact ctx.extNodup
  obtain ⟨st2, h2, inv2⟩ := later_steps hashOf lt.stored lt.es wf p.externFiles lg group hG F0 rest hrest hnodup rest [] st1 rfl
    (sinv1.congr (fun q => by simp [DoneS]))
  refine ⟨st2, by rw [hsteps]; simp only [runSteps, hgrp, hstep1, h2], ?_⟩
  -- everything extern has been written
  have hallDone : ∀ q ∈ p.externFiles, q ∈ st2.restored := by
    intro q hq
    apply inv2.restd'
    rw [hext] at hq
    rcases List.mem_append.mp hq with h | h
    · exact Or.inl h
    · obtain ⟨s, hs, hq'⟩ := List.mem_flatMap.mp h
      obtain ⟨kv, hkv, hq''⟩ := List.mem_flatMap.mp hq'
      exact Or.inr ⟨s, hs, kv, hkv, hq''⟩
  have hpend : st2.pending = [] := by
    apply List.eq_nil_iff_forall_not_mem.mpr
    intro q hq
    obtain ⟨h1', h2'⟩ := (inv2.pend q).mp hq
    exact h2' (hallDone q h1')
  have hpresent : ∀ e ∈ lt.es, Present lt.stored lt.es [] st2.restored e := by
    intro e he
    cases e with
    | dir p' m' => exact Or.inl he
    | symlink p' m' t' => exact he
    | file p' m' d' =>
      simp only [Present]
      split
      · rename_i hx; exact hallDone _ (ctx.extComplete _ he hx)
      · exact he
    | other p' => have := wf.noOther _ he; cases this
  -- the metadata pass
  have hkeysnd : ((schedT lt.stored lt.es).reverse.map (·.1)).Nodup := by
    rw [List.map_reverse, (List.reverse_perm _).nodup_iff]
    exact wf.nodup.sublist (schedT_keys_sublist lt.stored lt.es)
  have hexists : ∀ x ∈ (schedT lt.stored lt.es).reverse, fsGet st2.fs x.1 ≠ none := by
    intro x hx
    obtain ⟨e, he, hfp, _⟩ := (mem_schedT lt.stored lt.es x.1 x.2).mp (List.mem_reverse.mp hx)
    rw [← hfp, inv2.fsPresent e he (hpresent e he)]
    simp
  obtain ⟨fs, hm, hva, hvb⟩ := applyMeta_view (schedT lt.stored lt.es).reverse st2.fs hkeysnd hexists
  refine ⟨fs, by rw [hpend, inv2.sched]; exact hm, by simp [inv2.ok, hpend, inv2.pc], ?_⟩
  intro q
  by_cases hq : ∃ e ∈ lt.es, fpOf e = q
  · obtain ⟨e, he, rfl⟩ := hq
    have hR : fsGet (fsOf lt.es) (fpOf e) = some (nodeOf e) := fsGet_map_mem lt.es nodeOf e he wf.nodup
    have hL := inv2.fsPresent e he (hpresent e he)
    rw [hR]
    have hnotsched : ∀ (hno : ∀ m, ¬ ((∃ p, e = .dir p m) ∨ (∃ p d, e = .file p m d ∧ isExtE lt.stored e = true))),
        fsGet fs (fpOf e) = fsGet st2.fs (fpOf e) := by
      intro hno
      apply hvb
      intro m hin
      obtain ⟨e', he', hfe', hk⟩ := (mem_schedT lt.stored lt.es _ m).mp (List.mem_reverse.mp hin)
      have : e' = e := entry_of_fp lt.es wf e' e he' he hfe'
      subst this
      exact hno m hk
    cases e with
    | dir p' m' =>
      rw [hva _ m' (List.mem_reverse.mpr ((mem_schedT lt.stored lt.es _ m').mpr ⟨_, he, rfl, Or.inl ⟨p', rfl⟩⟩)), hL]
      rfl
    | symlink p' m' t' =>
      rw [hnotsched (by intro m; rintro (⟨p, h⟩ | ⟨p, d, h, _⟩) <;> cases h), hL]
      rfl
    | file p' m' d' =>
      by_cases hx : isExtE lt.stored (.file p' m' d' : Entry β) = true
      · rw [hva _ m' (List.mem_reverse.mpr ((mem_schedT lt.stored lt.es _ m').mpr ⟨_, he, rfl, Or.inr ⟨p', d', rfl, hx⟩⟩)), hL]
        simp [nodeT, hx, setMetaNode, nodeOf]
      · rw [hnotsched (by
          intro m; rintro (⟨p, h⟩ | ⟨p, d, h, hx'⟩)
          · cases h
          · exact hx hx'), hL]
        simp [nodeT, hx, nodeOf]
    | other p' => have := wf.noOther _ he; cases this
  · have hR : fsGet (fsOf lt.es) q = none := by
      apply fsGet_map_none
      intro hin
      obtain ⟨e, he, hfe⟩ := List.mem_map.mp hin
      exact hq ⟨e, he, hfe⟩
    rw [hR, hvb q (by
      intro m hin
      obtain ⟨e', he', hfe', _⟩ := (mem_schedT lt.stored lt.es _ m).mp (List.mem_reverse.mp hin)
      exact hq ⟨e', he', hfe'⟩)]
    cases hg : fsGet st2.fs q with
    | none => rfl
    | some n =>
      obtain ⟨e, he, hfe, _⟩ := inv2.fsSome q n hg
      exact absurd ⟨e, he, hfe⟩ hq

end Vsb.Restore
