import VsbModel.Lemmas.Walk
set_option linter.unusedSimpArgs false
set_option linter.unusedSectionVars false
set_option linter.unusedVariables false

/-!
The sequence of entries a walk archives is well formed: no path twice, and every entry's parent directory
was archived earlier (or the entry sits directly below `/`).  This is the structural half of `WFArchive`, the
hypothesis of C01's `restore_exact`, here derived from the model of `Backuper` for trees whose directories hold
no name twice.
-/
namespace Vsb.Walk

def Ev.arch : Ev → Option Path
  | .archDir p => some p
  | .archFile p => some p
  | .archLink p => some p
  | _ => none

/-- The archived paths, in order. -/
def archs (evs : List Ev) : List Path := evs.filterMap Ev.arch

theorem archs_append (a b : List Ev) : archs (a ++ b) = archs a ++ archs b := by simp [archs, List.filterMap_append]

mutual
/-- No directory of the tree lists a name twice. -/
def namesOk : Node → Bool
  | .dir _ _ _ children => namesOkL children
  | _ => true
def namesOkL : List (String × Bool × Bool × Node) → Bool
  | [] => true
  | (name, _, _, node) :: rest => !(rest.any (fun c => c.1 == name)) && namesOk node && namesOkL rest
end

def Ev.dir : Ev → Option Path
  | .archDir p => some p
  | _ => none

def dirsOf (evs : List Ev) : List Path := evs.filterMap Ev.dir

theorem dirsOf_append (a b : List Ev) : dirsOf (a ++ b) = dirsOf a ++ dirsOf b := by simp [dirsOf, List.filterMap_append]

/-- Every archived path is exempt (`ex`) or has its parent among the directories archived before it (`seen` = those
archived before the fragment). -/
def parentsOk (ex : Path → Bool) : List Path → List Ev → Bool
  | _, [] => true
  | seen, e :: rest =>
    (match e.arch with
      | some q => ex q || seen.contains q.dropLast
      | none => true) &&
    parentsOk ex (match e.dir with | some q => seen ++ [q] | none => seen) rest

theorem parentsOk_append (ex : Path → Bool) (a b : List Ev) : ∀ seen,
    parentsOk ex seen (a ++ b) = (parentsOk ex seen a && parentsOk ex (seen ++ dirsOf a) b) := by
  induction a with
  | nil => intro seen; simp [parentsOk, dirsOf]
  | cons e rest ih =>
    intro seen
    simp only [List.cons_append, parentsOk, ih, Bool.and_assoc]
    congr 2
    cases hd : e.dir with
    | none => simp [dirsOf, List.filterMap_cons, hd]
    | some q => simp [dirsOf, List.filterMap_cons, hd, List.append_assoc]

theorem parentsOk_mono (ex ex' : Path → Bool) (evs : List Ev) : ∀ (seen seen' : List Path),
    (∀ q ∈ archs evs, ex q = true → ex' q = true ∨ q.dropLast ∈ seen') → (∀ q ∈ seen, q ∈ seen') →
    parentsOk ex seen evs = true → parentsOk ex' seen' evs = true := by
  induction evs with
  | nil => intro _ _ _ _ _; rfl
  | cons e rest ih =>
    intro seen seen' hex hsub h
    simp only [parentsOk, Bool.and_eq_true] at h ⊢
    have hrestmem : ∀ q ∈ archs rest, q ∈ archs (e :: rest) := by
      intro q hq
      simp only [archs, List.filterMap_cons] at hq ⊢
      cases e.arch <;> simp [hq]
    refine ⟨?_, ?_⟩
    · cases ha : e.arch with
      | none => rfl
      | some q =>
        have h1 := h.1
        rw [ha] at h1
        have hqmem : q ∈ archs (e :: rest) := by simp [archs, List.filterMap_cons, ha]
        simp only [Bool.or_eq_true, List.contains_iff_mem] at h1 ⊢
        rcases h1 with h1 | h1
        · rcases hex q hqmem h1 with h2 | h2
          · exact Or.inl h2
          · exact Or.inr h2
        · exact Or.inr (hsub _ h1)
    · apply ih _ _ _ _ h.2
      · intro q hqm hq
        rcases hex q (hrestmem q hqm) hq with h2 | h2
        · exact Or.inl h2
        · right
          cases e.dir <;> simp [h2]
      · intro q hq
        cases hd : e.dir with
        | none => rw [hd] at hq; exact hsub q hq
        | some d =>
          rw [hd] at hq
          simp only [List.mem_append, List.mem_singleton] at hq ⊢
          rcases hq with hq | hq
          · exact Or.inl (hsub q hq)
          · exact Or.inr hq

theorem parentsOk_noarch (ex : Path → Bool) (evs : List Ev) (h : archs evs = []) : ∀ seen, parentsOk ex seen evs = true := by
  induction evs with
  | nil => intro _; rfl
  | cons e rest ih =>
    intro seen
    have ha : e.arch = none := by
      cases hh : e.arch with
      | none => rfl
      | some q => simp [archs, List.filterMap_cons, hh] at h
    have hrest : archs rest = [] := by simpa [archs, List.filterMap_cons, ha] using h
    have hd : e.dir = none := by
      cases e <;> simp [Ev.dir] <;> simp [Ev.arch] at ha
    simp [parentsOk, ha, hd, ih hrest]

/-- A fragment of the walk below `p`. -/
structure Frag (p : Path) (evs : List Ev) : Prop where
  under : ∀ q ∈ archs evs, ∃ s, q = p ++ s
  nodup : (archs evs).Nodup
  parents : parentsOk (fun q => q == p || q.dropLast == []) [] evs = true

/-- A fragment made of the subtrees of children of `p` with names in `names`. -/
structure FragC (p : Path) (names : List String) (evs : List Ev) : Prop where
  under : ∀ q ∈ archs evs, ∃ name ∈ names, ∃ s, q = p ++ name :: s
  nodup : (archs evs).Nodup
  parents : parentsOk (fun q => q.dropLast == p) [] evs = true

theorem frag_noarch (p : Path) (evs : List Ev) (h : archs evs = []) : Frag p evs :=
  ⟨by simp [h], by simp [h], parentsOk_noarch _ evs h []⟩

theorem fragC_noarch (p : Path) (names : List String) (evs : List Ev) (h : archs evs = []) : FragC p names evs :=
  ⟨by simp [h], by simp [h], parentsOk_noarch _ evs h []⟩

theorem archs_accessError (p : Path) (top : Bool) (e : Err) (tc : Bool) : archs (accessError p top e tc).evs = [] := by
  unfold accessError typeChange errorAt warnAt
  split
  · split <;> rfl
  · split <;> rfl

theorem archs_typeChange (p : Path) (top : Bool) : archs (typeChange p top).evs = [] := by
  unfold typeChange errorAt warnAt
  split <;> rfl

theorem frag_single (p : Path) (e : Ev) (he : e.arch = some p) : Frag p [e] := by
  refine ⟨?_, ?_, ?_⟩
  · intro q hq
    simp only [archs, List.filterMap_cons, he, List.filterMap_nil, List.mem_singleton] at hq
    exact ⟨[], by simp [hq]⟩
  · simp [archs, List.filterMap_cons, he]
  · simp [parentsOk, he]


theorem andThen_cases (a : Out) (b : Unit → Out) :
    (a.andThen b).evs = a.evs ∨ (a.andThen b).evs = a.evs ++ (b ()).evs := by
  unfold Out.andThen
  split
  · exact Or.inl rfl
  · exact Or.inr rfl

theorem fragC_nil (p : Path) (names : List String) : FragC p names [] := fragC_noarch p names [] rfl

/-- The subtree of one child followed by the subtrees of other children. -/
theorem fragC_cons (p : Path) (name : String) (rest : List String) (a b : List Ev)
    (ha : Frag (p ++ [name]) a) (hb : FragC p rest b) (hn : name ∉ rest) : FragC p (name :: rest) (a ++ b) := by
  refine ⟨?_, ?_, ?_⟩
  · intro q hq
    rw [archs_append] at hq
    rcases List.mem_append.mp hq with h | h
    · obtain ⟨s, hs⟩ := ha.under q h
      exact ⟨name, by simp, s, by rw [hs]; simp⟩
    · obtain ⟨n', hn', s, hs⟩ := hb.under q h
      exact ⟨n', List.mem_cons_of_mem _ hn', s, hs⟩
  · rw [archs_append, List.nodup_append]
    refine ⟨ha.nodup, hb.nodup, ?_⟩
    intro x hx y hy hxy
    subst hxy
    obtain ⟨s, hs⟩ := ha.under x hx
    obtain ⟨n', hn', s', hs'⟩ := hb.under x hy
    rw [hs, List.append_assoc] at hs'
    have := List.append_cancel_left hs'
    simp only [List.singleton_append, List.cons.injEq] at this
    exact hn (this.1 ▸ hn')
  · rw [parentsOk_append, Bool.and_eq_true]
    refine ⟨?_, ?_⟩
    · apply parentsOk_mono _ _ a [] [] _ (fun q hq => hq) ha.parents
      intro q hqm hq
      left
      simp only [Bool.or_eq_true, beq_iff_eq] at hq ⊢
      rcases hq with hq | hq
      · rw [hq]; simp
      · obtain ⟨s, hs⟩ := ha.under q hqm
        have hlen : q.dropLast.length = q.length - 1 := List.length_dropLast
        rw [hq, hs] at hlen
        simp only [List.length_nil, List.length_append, List.length_cons] at hlen
        have hp : p = [] := List.eq_nil_of_length_eq_zero (by omega)
        rw [hq, hp]
    · exact parentsOk_mono _ _ b [] _ (fun q _ hq => Or.inl hq) (fun q hq => by cases hq) hb.parents

mutual
theorem frag_walkNode (allow : Path → Bool) (p rel : Path) (top : Bool) (n : Node) (hn : namesOk n = true) :
    Frag p (walkNode allow p rel top n).evs := by
  cases n with
  | lstatFails e => simp only [walkNode]; exact frag_noarch _ _ (archs_accessError _ _ _ _)
  | file o f s a =>
    simp only [walkNode]
    split
    · exact frag_noarch _ _ (archs_accessError _ _ _ _)
    · split
      · exact frag_noarch _ _ (archs_accessError _ _ _ _)
      · split
        · exact frag_noarch _ _ (archs_typeChange _ _)
        · split
          · exact frag_single p _ rfl
          · exact frag_noarch _ _ rfl
  | symlink r a =>
    simp only [walkNode]
    split
    · exact frag_noarch _ _ (archs_accessError _ _ _ _)
    · split
      · exact frag_single p _ rfl
      · exact frag_noarch _ _ rfl
  | special =>
    simp only [walkNode]
    split
    · exact frag_noarch _ _ rfl
    · exact frag_noarch _ _ rfl
  | dir r e a cs =>
    simp only [walkNode]
    split
    · exact frag_noarch _ _ (archs_accessError _ _ _ _)
    · split
      · exact frag_noarch _ _ (archs_accessError _ _ _ _)
      · have hcs : namesOkL cs = true := by simpa [namesOk] using hn
        have hc := fragC_walkChildren allow p rel cs hcs
        -- the children below `p`, seen from `p`
        have hunder : ∀ q ∈ archs (walkChildren allow p rel cs).evs, ∃ s, q = p ++ s := by
          intro q hq
          obtain ⟨n', _, s, hs⟩ := hc.under q hq
          exact ⟨n' :: s, hs⟩
        split
        · -- the item is `/` itself: nothing is archived for it
          rename_i htop
          have hp : p = [] := by
            simp only [Bool.and_eq_true, List.isEmpty_iff] at htop
            exact htop.2
          rcases andThen_cases ({} : Out) (fun _ => walkChildren allow p rel cs) with h | h
          · rw [h]; exact frag_noarch _ _ rfl
          · rw [h]
            simp only [List.nil_append]
            refine ⟨hunder, hc.nodup, ?_⟩
            apply parentsOk_mono _ _ _ [] [] _ (fun q hq => hq) hc.parents
            intro q _ hq
            left
            simp only [beq_iff_eq] at hq
            simp [hq, hp]
        · split
          · rcases andThen_cases ({ evs := [.archDir p] } : Out) (fun _ => walkChildren allow p rel cs) with h | h
            · rw [h]; exact frag_single p _ rfl
            · rw [h]
              refine ⟨?_, ?_, ?_⟩
              · intro q hq
                rw [archs_append] at hq
                rcases List.mem_append.mp hq with h' | h'
                · simp only [archs, List.filterMap_cons, Ev.arch, List.filterMap_nil, List.mem_singleton] at h'
                  exact ⟨[], by simp [h']⟩
                · exact hunder q h'
              · rw [archs_append, List.nodup_append]
                refine ⟨by simp [archs, List.filterMap_cons, Ev.arch], hc.nodup, ?_⟩
                intro x hx y hy hxy
                subst hxy
                simp only [archs, List.filterMap_cons, Ev.arch, List.filterMap_nil, List.mem_singleton] at hx
                obtain ⟨n', _, s, hs⟩ := hc.under x hy
                rw [hx] at hs
                have := congrArg List.length hs
                simp at this
              · rw [parentsOk_append, Bool.and_eq_true]
                refine ⟨by simp [parentsOk, Ev.arch], ?_⟩
                apply parentsOk_mono _ _ _ [] _ _ (fun q hq => by cases hq) hc.parents
                intro q _ hq
                right
                simp only [beq_iff_eq] at hq
                simp [dirsOf, List.filterMap_cons, Ev.dir, hq]
          · rcases andThen_cases abortOut (fun _ => walkChildren allow p rel cs) with h | h
            · rw [h]; exact frag_noarch _ _ rfl
            · have : (abortOut.andThen fun _ => walkChildren allow p rel cs).evs = [] := by
                simp [Out.andThen, abortOut]
              rw [this]; exact frag_noarch _ _ rfl

theorem fragC_walkChildren (allow : Path → Bool) (p rel : Path) (cs : List (String × Bool × Bool × Node))
    (hn : namesOkL cs = true) : FragC p (cs.map (·.1)) (walkChildren allow p rel cs).evs := by
  cases cs with
  | nil => simp only [walkChildren]; exact fragC_nil p _
  | cons c rest =>
    obtain ⟨name, utf8, pv, node⟩ := c
    simp only [namesOkL, Bool.and_eq_true, Bool.not_eq_true', List.any_eq_false, beq_iff_eq] at hn
    obtain ⟨⟨hfresh, hnode⟩, hrest⟩ := hn
    have hnotin : name ∉ rest.map (·.1) := by
      intro hin
      obtain ⟨c, hc, hcn⟩ := List.mem_map.mp hin
      exact hfresh c hc hcn
    have ihr := fragC_walkChildren allow p rel rest hrest
    simp only [walkChildren, List.map_cons]
    -- the first child's own fragment
    have hone : Frag (p ++ [name]) (if !utf8 then errorAt (p ++ [name])
        else if allow (rel ++ [name]) then
          if !pv then errorAt (p ++ [name]) else walkNode allow (p ++ [name]) (rel ++ [name]) false node
        else ({} : Out)).evs := by
      split
      · exact frag_noarch _ _ rfl
      · split
        · split
          · exact frag_noarch _ _ rfl
          · exact frag_walkNode allow _ _ false node hnode
        · exact frag_noarch _ _ rfl
    rcases andThen_cases _ (fun _ => walkChildren allow p rel rest) with h | h
    · rw [h]
      have := fragC_cons p name (rest.map (·.1)) _ [] hone (fragC_nil p _) hnotin
      simpa using this
    · rw [h]
      exact fragC_cons p name (rest.map (·.1)) _ _ hone ihr hnotin
end

end Vsb.Walk
