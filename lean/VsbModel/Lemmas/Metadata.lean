import VsbModel.Model.Metadata

namespace Vsb.Metadata

abbrev IsDigit (c : Char) : Prop := '0' ≤ c ∧ c ≤ '9'

theorem digit_cases (n : Nat) (h : n < 10) :
    n = 0 ∨ n = 1 ∨ n = 2 ∨ n = 3 ∨ n = 4 ∨ n = 5 ∨ n = 6 ∨ n = 7 ∨ n = 8 ∨ n = 9 := by omega

theorem digitVal_ofNat (n : Nat) (h : n < 10) : digitVal (Char.ofNat (48 + n)) = some n := by
  rcases digit_cases n h with h | h | h | h | h | h | h | h | h | h <;> subst h <;> decide

theorem isDigit_ofNat (n : Nat) (h : n < 10) : IsDigit (Char.ofNat (48 + n)) := by
  rcases digit_cases n h with h | h | h | h | h | h | h | h | h | h <;> subst h <;> decide

theorem natDigits_isDigit (n : Nat) : ∀ c ∈ natDigits n, IsDigit c := by
  induction n using Nat.strongRecOn with
  | _ n ih =>
    rw [natDigits]
    split
    · intro c hc; simp at hc; subst hc; exact isDigit_ofNat n (by omega)
    · intro c hc
      simp only [List.mem_append, List.mem_singleton] at hc
      rcases hc with hc | rfl
      · exact ih (n / 10) (by omega) c hc
      · exact isDigit_ofNat (n % 10) (by omega)

theorem natDigits_ne_nil (n : Nat) : natDigits n ≠ [] := by
  rw [natDigits]; split <;> simp

theorem readDigitsAux_append (a b : List Char) (acc : Nat) :
    readDigitsAux (a ++ b) acc = (readDigitsAux a acc).bind (readDigitsAux b) := by
  induction a generalizing acc with
  | nil => simp [readDigitsAux]
  | cons c cs ih =>
    simp only [List.cons_append, readDigitsAux]
    cases digitVal c with
    | none => simp
    | some d => simp [ih]

theorem readDigitsAux_natDigits (n : Nat) : ∀ acc, ∃ k, readDigitsAux (natDigits n) acc = some (acc * 10 ^ k + n) := by
  induction n using Nat.strongRecOn with
  | _ n ih =>
    intro acc
    rw [natDigits]
    split
    · rename_i h
      refine ⟨1, ?_⟩
      simp [readDigitsAux, digitVal_ofNat n h]
    · rename_i h
      obtain ⟨k, hk⟩ := ih (n / 10) (by omega) acc
      refine ⟨k + 1, ?_⟩
      rw [readDigitsAux_append, hk]
      simp only [Option.bind_some, readDigitsAux, digitVal_ofNat (n % 10) (by omega)]
      congr 1
      rw [Nat.pow_succ]
      have := Nat.div_add_mod n 10
      rw [Nat.add_mul, Nat.mul_assoc]
      omega

theorem readDigits_natDigits (n : Nat) : readDigits (natDigits n) = some n := by
  unfold readDigits
  have : (natDigits n).isEmpty = false := by
    cases h : natDigits n with
    | nil => exact absurd h (natDigits_ne_nil n)
    | cons _ _ => rfl
  simp only [this, Bool.false_eq_true, if_false]
  obtain ⟨k, hk⟩ := readDigitsAux_natDigits n 0
  simpa using hk

theorem head_natDigits_ne (n : Nat) (c : Char) (hc : ¬ IsDigit c) : ∀ rest, natDigits n ≠ c :: rest := by
  intro rest h
  have := natDigits_isDigit n c (by rw [h]; simp)
  exact hc this

theorem parseU64_natDigits (n : Nat) (h : n ≤ u64Max) : parseU64 (natDigits n) = some n := by
  unfold parseU64
  have hne : ∀ rest, natDigits n ≠ '+' :: rest := head_natDigits_ne n '+' (by decide)
  have : (match natDigits n with | '+' :: rest => rest | _ => natDigits n) = natDigits n := by
    split
    · rename_i rest heq; exact absurd heq (hne rest)
    · rfl
  simp only [this, readDigits_natDigits, h, if_true]

theorem parseI128_showInt (i : Int) (h1 : i128Min ≤ i) (h2 : i ≤ i128Max) : parseI128 (showInt i) = some i := by
  cases i with
  | ofNat n =>
    unfold parseI128 showInt
    have hp : ∀ rest, natDigits n ≠ '+' :: rest := head_natDigits_ne n '+' (by decide)
    have hm : ∀ rest, natDigits n ≠ '-' :: rest := head_natDigits_ne n '-' (by decide)
    have : (match natDigits n with
        | '+' :: rest => (false, rest)
        | '-' :: rest => (true, rest)
        | _ => (false, natDigits n)) = (false, natDigits n) := by
      split
      · rename_i rest heq; exact absurd heq (hp rest)
      · rename_i rest heq; exact absurd heq (hm rest)
      · rfl
    simp only [this, readDigits_natDigits]
    simp only [Bool.false_eq_true, if_false]
    have hh : i128Min ≤ (n : Int) ∧ (n : Int) ≤ i128Max := ⟨h1, h2⟩
    simp [hh]
  | negSucc n =>
    unfold parseI128 showInt
    simp only [readDigits_natDigits, if_true]
    have hv : -((n + 1 : Nat) : Int) = Int.negSucc n := by omega
    rw [hv]
    have hh : i128Min ≤ Int.negSucc n ∧ Int.negSucc n ≤ i128Max := ⟨h1, h2⟩
    simp [hh]

/-! ### hex -/

theorem hexVal_hexDigit (n : Nat) (h : n < 16) : hexVal (hexDigit n) = some n := by
  have : n = 0 ∨ n = 1 ∨ n = 2 ∨ n = 3 ∨ n = 4 ∨ n = 5 ∨ n = 6 ∨ n = 7 ∨ n = 8 ∨ n = 9 ∨ n = 10 ∨ n = 11 ∨
      n = 12 ∨ n = 13 ∨ n = 14 ∨ n = 15 := by omega
  rcases this with h | h | h | h | h | h | h | h | h | h | h | h | h | h | h | h <;> subst h <;> decide

theorem hexDigit_ne_space (n : Nat) (h : n < 16) : hexDigit n ≠ ' ' := by
  have : n = 0 ∨ n = 1 ∨ n = 2 ∨ n = 3 ∨ n = 4 ∨ n = 5 ∨ n = 6 ∨ n = 7 ∨ n = 8 ∨ n = 9 ∨ n = 10 ∨ n = 11 ∨
      n = 12 ∨ n = 13 ∨ n = 14 ∨ n = 15 := by omega
  rcases this with h | h | h | h | h | h | h | h | h | h | h | h | h | h | h | h <;> subst h <;> decide

theorem hexDecode_hexEncode (bs : List Nat) (h : ∀ b ∈ bs, b < 256) : hexDecode (hexEncode bs) = some bs := by
  induction bs with
  | nil => rfl
  | cons b bs ih =>
    have hb : b < 256 := h b (by simp)
    simp only [hexEncode, hexDecode, hexVal_hexDigit (b / 16) (by omega), hexVal_hexDigit (b % 16) (by omega),
      ih (fun x hx => h x (by simp [hx]))]
    congr 2
    omega

theorem hexEncode_no_space (bs : List Nat) (h : ∀ b ∈ bs, b < 256) : ' ' ∉ hexEncode bs := by
  induction bs with
  | nil => simp [hexEncode]
  | cons b bs ih =>
    have hb : b < 256 := h b (by simp)
    simp only [hexEncode, List.mem_cons, not_or]
    exact ⟨(hexDigit_ne_space _ (by omega)).symm, (hexDigit_ne_space _ (by omega)).symm,
      ih (fun x hx => h x (by simp [hx]))⟩

/-! ### splitting -/

theorem splitSpace_append (a b : List Char) (h : ' ' ∉ a) : splitSpace (a ++ ' ' :: b) = some (a, b) := by
  induction a with
  | nil => simp [splitSpace]
  | cons c cs ih =>
    have hc : c ≠ ' ' := fun hc => h (by simp [hc])
    have hcs : ' ' ∉ cs := fun hcs => h (by simp [hcs])
    simp [splitSpace, hc, ih hcs]

theorem splitOn_none (sep : Char) (a : List Char) (h : sep ∉ a) : splitOn sep a = [a] := by
  induction a with
  | nil => rfl
  | cons c cs ih =>
    have hc : c ≠ sep := fun hc => h (by simp [hc])
    have hcs : sep ∉ cs := fun hcs => h (by simp [hcs])
    simp [splitOn, hc, ih hcs]

theorem splitOn_append (sep : Char) (a b : List Char) (h : sep ∉ a) :
    splitOn sep (a ++ sep :: b) = a :: splitOn sep b := by
  induction a with
  | nil => simp [splitOn]
  | cons c cs ih =>
    have hc : c ≠ sep := fun hc => h (by simp [hc])
    have hcs : sep ∉ cs := fun hcs => h (by simp [hcs])
    simp [splitOn, hc, ih hcs]

theorem natDigits_no (n : Nat) (c : Char) (hc : ¬ IsDigit c) : c ∉ natDigits n :=
  fun h => hc (natDigits_isDigit n c h)

theorem showInt_no (i : Int) (c : Char) (hc : ¬ IsDigit c) (hm : c ≠ '-') : c ∉ showInt i := by
  cases i with
  | ofNat n => exact natDigits_no n c hc
  | negSucc n =>
    simp only [showInt, List.mem_cons, not_or]
    exact ⟨hm, natDigits_no _ c hc⟩

end Vsb.Metadata
