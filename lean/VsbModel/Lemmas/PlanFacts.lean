import VsbModel.Lemmas.PlanRec
import VsbModel.Lemmas.RestoreGroupFinal
set_option linter.unusedSimpArgs false
set_option linter.unusedSectionVars false
set_option linter.unusedVariables false

/-!
From the record-level shape of the plan (`plan_shape`) to the facts the execution theorem needs
(`PlanFacts`), for a group of backups given by their logical description (`LBackup`).
-/
namespace Vsb.Restore
variable {H β : Type} [DecidableEq H]

def recsOf (hashOf : List β → H) (lb : LBackup β) : List (MRec H) := lb.es.filterMap (recG hashOf lb.stored)

theorem mem_recsOf (hashOf : List β → H) (lb : LBackup β) (r : MRec H) :
    r ∈ recsOf hashOf lb ↔ ∃ p m d, (.file p m d : Entry β) ∈ lb.es ∧
      r = ⟨lb.stored p, hashOf d, d.length, keyE (.file p m d : Entry β)⟩ := by
  unfold recsOf
  rw [List.mem_filterMap]
  constructor
  · rintro ⟨e, he, h⟩
    cases e with
    | file p m d =>
      simp only [recG, Option.some.injEq] at h
      exact ⟨p, m, d, he, h.symm⟩
    | dir p m => cases h
    | symlink p m t => cases h
    | other p => cases h
  · rintro ⟨p, m, d, he, rfl⟩
    exact ⟨_, he, rfl⟩

theorem isOwn_rec (hashOf : List β → H) (stored : String → Bool) (p : String) (m : Meta) (d : List β) :
    isOwn (⟨stored p, hashOf d, d.length, keyE (.file p m d : Entry β)⟩ : MRec H) =
      isOwnE stored (.file p m d : Entry β) := by
  cases d with
  | nil => simp [isOwn, isOwnE]
  | cons x xs => simp [isOwn, isOwnE]

theorem recs_paths_nodup (hashOf : List β → H) (lb : LBackup β) (wf : WFArchive lb.es) :
    ((recsOf hashOf lb).map (·.path)).Nodup := by
  unfold recsOf
  have hk := wf.keys
  have hn := wf.nodup
  generalize lb.es = es at hk hn
  induction es with
  | nil => simp
  | cons e rest ih =>
    have hk' : ∀ e' ∈ rest, manifestPathToFile (keyOf (fpOf e')) = some (fpOf e') :=
      fun e' he' => hk e' (List.mem_cons_of_mem _ he')
    simp only [List.map_cons, List.nodup_cons] at hn
    have ih' := ih hk' hn.2
    simp only [List.filterMap_cons]
    cases hr : recG hashOf lb.stored e with
    | none => simpa using ih'
    | some r =>
      simp only [List.map_cons, List.nodup_cons]
      refine ⟨?_, ih'⟩
      intro hmem
      obtain ⟨r', hr', hp⟩ := List.mem_map.mp hmem
      obtain ⟨e', he', hre'⟩ := List.mem_filterMap.mp hr'
      have p1 : r.path = keyOf (fpOf e) := by
        cases e with
        | file p m d => simp only [recG, Option.some.injEq] at hr; rw [← hr]
        | dir p m => cases hr
        | symlink p m t => cases hr
        | other p => cases hr
      have p2 : r'.path = keyOf (fpOf e') := by
        cases e' with
        | file p m d => simp only [recG, Option.some.injEq] at hre'; rw [← hre']
        | dir p m => cases hre'
        | symlink p m t => cases hre'
        | other p => cases hre'
      have heq : fpOf e' = fpOf e := keyOf_inj_of _ _ (hk' e' he') (hk e (by simp)) (by rw [← p2, ← p1, hp])
      apply hn.1
      rw [← heq]
      exact List.mem_map_of_mem he'

/-- Every non-empty file of the target whose bytes are not stored in it has the same content as a file stored in
the target or in an earlier backup of the group (C02's invariant, in terms of contents). -/
def ResolvableL (lg : List (LBackup β)) (t : Nat) (lt : LBackup β) : Prop :=
  ∀ b ∈ lt.es, isExtE lt.stored b = true →
    (∃ a ∈ lt.es, isOwnE lt.stored a = true ∧ contentE a = contentE b) ∨
    (∃ j : Nat, j < t ∧ ∃ lb, lg[j]? = some lb ∧ ∃ p m d, (.file p m d : Entry β) ∈ lb.es ∧ lb.stored p = true ∧ d = contentE b)

/-- **Planning.**  For a resolvable target in a group of well-formed backups, `RestorePlan::new` succeeds and its
plan has the shape the execution theorem needs. -/
theorem plan_facts (hashOf : List β → H) (hinj : ∀ x y, hashOf x = hashOf y → x = y)
    (lg : List (LBackup β)) (group : List (Backup H β))
    (hG : ∀ (j : Nat) (lb : LBackup β), lg[j]? = some lb → group[j]? = some (render hashOf lb))
    (t : Nat) (lt : LBackup β) (hlt : lg[t]? = some lt)
    (hwf : ∀ (j : Nat) (lb : LBackup β), j ≤ t → lg[j]? = some lb → WFArchive lb.es)
    (hres : ResolvableL lg t lt) :
    ∃ p, plan group t = .ok p true ∧ PlanFacts hashOf lg t lt p := by
  have wf := hwf t lt (Nat.le_refl _) hlt
  have hgrp := hG
  have hgrp' : ∀ (j : Nat) (b : Backup H β), j < t → group[j]? = some b → ∃ lb, lg[j]? = some lb ∧ b = render hashOf lb := by
    intro j b hj h
    have hlen : j < lg.length := by
      have := (List.getElem?_eq_some_iff.mp hlt).1
      omega
    refine ⟨lg[j], List.getElem?_eq_getElem hlen, ?_⟩
    have := hG j lg[j] (List.getElem?_eq_getElem hlen)
    rw [this] at h
    exact (Option.some.inj h).symm
  -- extern records of the target and their entries
  have hXent : ∀ x ∈ (recsOf hashOf lt).filter (fun r => !isOwn r), ∃ b ∈ lt.es, isExtE lt.stored b = true ∧
      keyE b = x.path ∧ x.hash = hashOf (contentE b) ∧ x.size = (contentE b).length := by
    intro x hx
    obtain ⟨hx1, hx2⟩ := List.mem_filter.mp hx
    obtain ⟨p, m, d, he, rfl⟩ := (mem_recsOf hashOf lt x).mp hx1
    rw [isOwn_rec] at hx2
    refine ⟨_, he, ?_, rfl, rfl, rfl⟩
    apply ext_of_not_own
    simpa using hx2
  have hOent : ∀ r ∈ (recsOf hashOf lt).filter isOwn, ∃ a ∈ lt.es, isOwnE lt.stored a = true ∧
      keyE a = r.path ∧ r.hash = hashOf (contentE a) ∧ r.size = (contentE a).length := by
    intro r hr
    obtain ⟨hr1, hr2⟩ := List.mem_filter.mp hr
    obtain ⟨p, m, d, he, rfl⟩ := (mem_recsOf hashOf lt r).mp hr1
    rw [isOwn_rec] at hr2
    exact ⟨_, he, hr2, rfl, rfl, rfl⟩
  have hnd := recs_paths_nodup hashOf lt wf
  obtain ⟨F0, later, ext, hplan, hfk, hff, hlater, hexteq, hperm⟩ := plan_shape group t (render hashOf lt)
    (recsOf hashOf lt) (hgrp t lt hlt) rfl hnd
    (by
      intro r hr hro x hx hxo hxh
      obtain ⟨p, m, d, _, rfl⟩ := (mem_recsOf hashOf lt r).mp hr
      obtain ⟨p', m', d', _, rfl⟩ := (mem_recsOf hashOf lt x).mp hx
      simp only at hxh ⊢
      rw [hinj _ _ hxh])
    (by
      intro i hi
      obtain ⟨lb, hlb⟩ : ∃ lb, lg[i]? = some lb := by
        have : i < lg.length := by
          have := (List.getElem?_eq_some_iff.mp hlt).1
          omega
        exact ⟨lg[i], List.getElem?_eq_getElem this⟩
      refine ⟨render hashOf lb, recsOf hashOf lb, hgrp i lb hlb, rfl, ?_, ?_⟩
      · exact (recs_paths_nodup hashOf lb (hwf i lb (Nat.le_of_lt hi) hlb)).sublist ((List.filter_sublist).map _)
      · intro u hu _ x hx _ hxh
        obtain ⟨p, m, d, _, rfl⟩ := (mem_recsOf hashOf lb u).mp hu
        obtain ⟨p', m', d', _, rfl⟩ := (mem_recsOf hashOf lt x).mp hx
        simp only at hxh ⊢
        rw [hinj _ _ hxh])
    (by
      intro x hx hxo
      obtain ⟨p, m, d, he, rfl⟩ := (mem_recsOf hashOf lt x).mp hx
      rw [isOwn_rec] at hxo
      have hbext : isExtE lt.stored (.file p m d : Entry β) = true := ext_of_not_own lt.stored p m d (by simpa using hxo)
      rcases hres _ he hbext with ⟨a, ha, hown, hc⟩ | ⟨j, hj, lb, hlb, p', m', d', he', hst, hd⟩
      · left
        cases a with
        | file p' m' d' =>
          refine ⟨⟨lt.stored p', hashOf d', d'.length, keyE (.file p' m' d' : Entry β)⟩,
            (mem_recsOf hashOf lt _).mpr ⟨p', m', d', ha, rfl⟩, by rw [isOwn_rec]; exact hown, ?_⟩
          simp only [contentE] at hc
          simp only [hc]
        | dir p' m' => cases hown
        | symlink p' m' t' => cases hown
        | other p' => cases hown
      · right
        refine ⟨j, hj, render hashOf lb, recsOf hashOf lb, hgrp j lb hlb, rfl,
          ⟨lb.stored p', hashOf d', d'.length, keyE (.file p' m' d' : Entry β)⟩,
          (mem_recsOf hashOf lb _).mpr ⟨p', m', d', he', rfl⟩, ?_, ?_⟩
        · simp only [contentE] at hd
          have hne : d ≠ [] := by
            simp only [isExtE, Bool.and_eq_true, Bool.not_eq_true', List.isEmpty_eq_false_iff] at hbext
            exact hbext.1
          subst hd
          cases d' with
          | nil => exact absurd rfl hne
          | cons y ys => simp [hst]
        · simp only [contentE] at hd
          simp only [hd])
  refine ⟨_, hplan, ?_⟩
  -- consequences of the permutation
  have hXnd : (((recsOf hashOf lt).filter (fun r => !isOwn r)).map (·.path)).Nodup :=
    hnd.sublist ((List.filter_sublist).map _)
  have hextnd : ext.Nodup := hperm.nodup_iff.mpr hXnd
  have hextX : ∀ q ∈ ext, ∃ x ∈ (recsOf hashOf lt).filter (fun r => !isOwn r), x.path = q := by
    intro q hq
    obtain ⟨x, hx, hxp⟩ := List.mem_map.mp (hperm.mem_iff.mp hq)
    exact ⟨x, hx, hxp⟩
  -- a path found under a record's hash belongs to an entry with that record's content
  have hfanent : ∀ (c : List β) (q : String), (∃ x ∈ (recsOf hashOf lt).filter (fun r => !isOwn r), x.path = q ∧ x.hash = hashOf c) →
      ∃ b ∈ lt.es, isExtE lt.stored b = true ∧ keyE b = q ∧ contentE b = c := by
    rintro c q ⟨x, hx, hxp, hxh⟩
    obtain ⟨b, hb, hbext, hbk, hbh, _⟩ := hXent x hx
    refine ⟨b, hb, hbext, hbk.trans hxp, ?_⟩
    exact hinj _ _ (hbh.symm.trans hxh)
  have hnd2 := hextnd
  rw [hexteq] at hnd2
  have hnd3 := List.nodup_append.mp hnd2
  refine { steps := ⟨F0, later, rfl, ?_, ?_, hexteq⟩, missing := rfl }
  · exact {
      wf := wf
      extNodup := hextnd
      extComplete := fun b hb hbext => by
        cases b with
        | file p m d =>
          apply hperm.mem_iff.mpr
          have hrec : (⟨lt.stored p, hashOf d, d.length, keyE (.file p m d : Entry β)⟩ : MRec H) ∈
              (recsOf hashOf lt).filter (fun r => !isOwn r) := by
            apply List.mem_filter.mpr
            refine ⟨(mem_recsOf hashOf lt _).mpr ⟨p, m, d, hb, rfl⟩, ?_⟩
            rw [isOwn_rec]
            have : ¬ (isOwnE lt.stored (.file p m d : Entry β) = true) := fun h => own_not_ext lt.stored _ h hbext
            simpa using this
          exact List.mem_map.mpr ⟨_, hrec, rfl⟩
        | dir p m => cases hbext
        | symlink p m t' => cases hbext
        | other p => cases hbext
      extOnly := fun q hq => by
        obtain ⟨x, hx, hxp⟩ := hextX q hq
        obtain ⟨b, hb, hbext, hbk, _⟩ := hXent x hx
        exact ⟨b, hb, hbext, hbk.trans hxp⟩
      keysNodup := by
        rw [hfk]
        exact hnd.sublist ((List.filter_sublist).map _)
      f0_keys := fun kv hkv => by
        obtain ⟨r, hr, h1, h2, h3, fan, hpaths, hfan⟩ := hff kv hkv
        obtain ⟨a, ha, hown, hak, hah, has⟩ := hOent r hr
        refine ⟨a, ha, hown, h1.trans hak.symm, h2.trans hah, h3.trans has, fan, by rw [hpaths, h1], ?_⟩
        intro q hq
        refine ⟨?_, hfanent (contentE a) q ?_⟩
        · rw [hexteq]
          apply List.mem_append_left
          exact List.mem_flatMap.mpr ⟨kv, hkv, by rw [hpaths]; simpa using hq⟩
        · obtain ⟨x, hx, hxp, hxh⟩ := hfan q hq
          exact ⟨x, hx, hxp, hxh.trans hah⟩
      f0_all := fun a ha hown => by
        cases a with
        | file p m d =>
          have hrec : (⟨lt.stored p, hashOf d, d.length, keyE (.file p m d : Entry β)⟩ : MRec H) ∈
              (recsOf hashOf lt).filter isOwn := by
            apply List.mem_filter.mpr
            exact ⟨(mem_recsOf hashOf lt _).mpr ⟨p, m, d, ha, rfl⟩, by rw [isOwn_rec]; exact hown⟩
          have : keyE (.file p m d : Entry β) ∈ F0.map (·.1) := by
            rw [hfk]
            exact List.mem_map.mpr ⟨_, hrec, rfl⟩
          obtain ⟨kv, hkv, hk⟩ := List.mem_map.mp this
          refine ⟨kv.2, ?_⟩
          rw [← hk]
          exact hkv
        | dir p m => cases hown
        | symlink p m t' => cases hown
        | other p => cases hown
      fansDisjoint := hnd3.1 }
  · intro s hs
    obtain ⟨hslt, b, rs, hb, hm, hkn, hkv⟩ := hlater s hs
    obtain ⟨lb, hlb, rfl⟩ := hgrp' _ _ hslt hb
    simp only [render, Option.some.injEq] at hm
    subst hm
    refine ⟨lb, hlb, ?_⟩
    exact {
      wfj := hwf s.backup lb (Nat.le_of_lt hslt) hlb
      keysNodup := hkn
      fkeys := fun kv hkvm => by
        obtain ⟨u, hu, huu, h1, h2, h3, hq⟩ := hkv kv hkvm
        obtain ⟨p, m, d, he, rfl⟩ := (mem_recsOf hashOf lb u).mp hu
        refine ⟨_, he, ⟨p, m, d, rfl, huu⟩, h1, h2, h3, ?_⟩
        intro q hqin
        refine ⟨?_, hfanent d q (hq q hqin)⟩
        rw [hexteq]
        apply List.mem_append_right
        exact List.mem_flatMap.mpr ⟨s, hs, List.mem_flatMap.mpr ⟨kv, hkvm, hqin⟩⟩
      innerNodup := nodup_flatMap_inner (fun s : Step H => s.files.flatMap (fun kv => kv.2.paths)) later hnd3.2.1 s hs }

end Vsb.Restore
