import VsbModel.Model.ChunkedHash

namespace Vsb.ChunkedHash
variable {α δ : Type}

theorem blocks_nil (bs : Nat) : blocks bs ([] : List α) = [] := by
  unfold blocks; simp

theorem blocks_short (bs : Nat) (cur : List α) (h0 : 0 < cur.length) (h1 : cur.length ≤ bs) :
    blocks bs cur = [cur] := by
  unfold blocks
  have hne : cur ≠ [] := by intro h; simp [h] at h0
  have hbs : bs ≠ 0 := by omega
  simp only [hbs, hne, or_self, dite_false]
  rw [List.take_of_length_le h1, List.drop_of_length_le h1, blocks_nil]

theorem blocks_cons (bs : Nat) (x rest : List α) (hx : x.length = bs) (hbs : 0 < bs) :
    blocks bs (x ++ rest) = x :: blocks bs rest := by
  rw [blocks]
  have hne : x ++ rest ≠ [] := by
    intro h; have h' := (List.append_eq_nil_iff.mp h).1; rw [h'] at hx; simp at hx; omega
  have hbs' : bs ≠ 0 := by omega
  simp only [hbs', hne, or_self, dite_false]
  rw [List.take_left' hx, List.drop_left' hx]

/-- Full blocks followed by a (possibly empty) short remainder. -/
theorem blocks_flatten (bs : Nat) (hbs : 0 < bs) (pre : List (List α)) (cur : List α)
    (hpre : ∀ x ∈ pre, x.length = bs) (hcur : cur.length < bs) :
    blocks bs (pre.flatten ++ cur) = pre ++ (if cur = [] then [] else [cur]) := by
  induction pre with
  | nil =>
    simp only [List.flatten_nil, List.nil_append]
    by_cases hc : cur = []
    · simp [hc, blocks_nil]
    · simp only [hc, if_false]
      exact blocks_short bs cur (List.length_pos_iff.mpr hc) (by omega)
  | cons x xs ih =>
    simp only [List.flatten_cons, List.append_assoc, List.cons_append]
    rw [blocks_cons bs x _ (hpre x (by simp)) hbs, ih (fun y hy => hpre y (by simp [hy]))]

/-- Invariant: what the hasher state means after `done` was fed. -/
structure Inv (H : List α → δ) (bs : Nat) (s : St α δ) (done : List α) : Prop where
  bsEq : s.blockSize = bs
  ex : ∃ (pre : List (List α)) (cur : List α), done = pre.flatten ++ cur ∧ (∀ x ∈ pre, x.length = bs) ∧ s.digests = pre.map H ∧
      ((s.block = none ∧ cur = []) ∨
       (s.block = some ⟨cur, bs - cur.length⟩ ∧ 0 < cur.length ∧ cur.length < bs))

theorem write_inv (H : List α → δ) (bs : Nat) (hbs : 0 < bs) (s : St α δ) (done buf : List α)
    (h : Inv H bs s done) (hb : buf ≠ []) :
    let r := s.write H buf
    0 < r.2 ∧ r.2 ≤ buf.length ∧ Inv H bs r.1 (done ++ buf.take r.2) := by
  obtain ⟨hbsEq, pre, cur, hdone, hpre, hdig, hblk⟩ := h
  have hlen : buf.length ≠ 0 := fun hl => hb (List.eq_nil_of_length_eq_zero hl)
  have hpos : 0 < buf.length := by omega
  rcases hblk with ⟨hnone, hcur⟩ | ⟨hsome, hc0, hc1⟩
  · -- no block hasher yet
    subst hcur
    simp only [St.write, hlen, if_false, hnone, hbsEq]
    by_cases hlt : buf.length < bs
    · simp only [hlt, if_true]
      refine ⟨hpos, Nat.le_refl _, ⟨(by first | rfl | exact hbsEq), pre, buf, ?_, hpre, hdig, Or.inr ⟨by simp, hpos, hlt⟩⟩⟩
      simp [hdone]
    · simp only [hlt, if_false, St.consumeBlock]
      have htk : (buf.take bs).length = bs := by simp [List.length_take]; omega
      refine ⟨hbs, by omega, ⟨(by first | rfl | exact hbsEq), pre ++ [buf.take bs], [], ?_, ?_, ?_, Or.inl ⟨rfl, rfl⟩⟩⟩
      · simp [hdone]
      · intro x hx; simp only [List.mem_append, List.mem_singleton] at hx
        rcases hx with hx | rfl
        · exact hpre x hx
        · exact htk
      · simp [hdig]
  · simp only [St.write, hlen, if_false, hsome]
    by_cases hlt : buf.length < bs - cur.length
    · simp only [hlt, if_true]
      refine ⟨hpos, Nat.le_refl _, ⟨(by first | rfl | exact hbsEq), pre, cur ++ buf, ?_, hpre, hdig, Or.inr ⟨?_, ?_, ?_⟩⟩⟩
      · simp [hdone]
      · simp [List.length_append]; omega
      · simp; omega
      · simp; omega
    · simp only [hlt, if_false, St.consumeBlock]
      have htk : (buf.take (bs - cur.length)).length = bs - cur.length := by
        simp [List.length_take]; omega
      refine ⟨by omega, by omega, ⟨(by first | rfl | exact hbsEq), pre ++ [cur ++ buf.take (bs - cur.length)], [], ?_, ?_, ?_, Or.inl ⟨rfl, rfl⟩⟩⟩
      · simp [hdone]
      · intro x hx; simp only [List.mem_append, List.mem_singleton] at hx
        rcases hx with hx | rfl
        · exact hpre x hx
        · simp [htk]; omega
      · simp [hdig]

theorem writeAllAux_inv (H : List α → δ) (bs : Nat) (hbs : 0 < bs) :
    ∀ (fuel : Nat) (s : St α δ) (done buf : List α), buf.length < fuel → Inv H bs s done →
      ∃ s', St.writeAllAux H fuel s buf = some s' ∧ Inv H bs s' (done ++ buf) := by
  intro fuel
  induction fuel with
  | zero => intro s done buf h; omega
  | succ fuel ih =>
    intro s done buf hf hinv
    unfold St.writeAllAux
    by_cases hb : buf = []
    · subst hb; exact ⟨s, by simp, by simpa using hinv⟩
    · have he : buf.isEmpty = false := by simp [hb]
      simp only [he, Bool.false_eq_true, if_false]
      obtain ⟨h1, h2, h3⟩ := write_inv H bs hbs s done buf hinv hb
      have hn : (s.write H buf).2 ≠ 0 := by omega
      simp only [hn, if_false]
      obtain ⟨s', hs', hi'⟩ := ih (s.write H buf).1 (done ++ buf.take (s.write H buf).2)
        (buf.drop (s.write H buf).2) (by simp [List.length_drop]; omega) h3
      exact ⟨s', hs', by simpa [List.append_assoc] using hi'⟩

theorem feedParts_inv (H : List α → δ) (bs : Nat) (hbs : 0 < bs) :
    ∀ (parts : List (List α)) (s : St α δ) (done : List α), Inv H bs s done →
      ∃ s', feedParts H s parts = some s' ∧ Inv H bs s' (done ++ parts.flatten) := by
  intro parts
  induction parts with
  | nil => intro s done h; exact ⟨s, rfl, by simpa using h⟩
  | cons p ps ih =>
    intro s done h
    obtain ⟨s1, hs1, hi1⟩ := writeAllAux_inv H bs hbs (p.length + 1) s done p (by omega) h
    obtain ⟨s2, hs2, hi2⟩ := ih s1 (done ++ p) hi1
    refine ⟨s2, ?_, by simpa [List.append_assoc] using hi2⟩
    simp only [feedParts, St.writeAll, hs1, hs2]

theorem finish_of_inv {ρ : Type} (H : List α → δ) (Hout : List δ → ρ) (bs : Nat) (hbs : 0 < bs)
    (s : St α δ) (done : List α) (h : Inv H bs s done) :
    s.finish H Hout = spec H Hout bs done := by
  obtain ⟨_, pre, cur, hdone, hpre, hdig, hblk⟩ := h
  simp only [St.finish, spec]
  rcases hblk with ⟨hnone, hcur⟩ | ⟨hsome, hc0, hc1⟩
  · subst hcur
    rw [hdone, blocks_flatten bs hbs pre [] hpre hbs]
    simp [St.consumeBlock, hnone, hdig]
  · have hne : cur ≠ [] := by intro hc; simp [hc] at hc0
    rw [hdone, blocks_flatten bs hbs pre cur hpre hc1]
    simp [St.consumeBlock, hsome, hdig, hne]

theorem inv_init (H : List α → δ) (bs : Nat) : Inv H bs ({ blockSize := bs } : St α δ) [] :=
  ⟨rfl, [], [], by simp, by simp, rfl, Or.inl ⟨rfl, rfl⟩⟩

end Vsb.ChunkedHash
