import VsbModel.Model.Sync

namespace Vsb.Sync

abbrev Asc (l : List Nat) : Prop := l.Pairwise (· < ·)

theorem mem_insertKey (k x : Nat) (l : List Nat) : x ∈ insertKey k l ↔ x = k ∨ x ∈ l := by
  induction l with
  | nil => simp [insertKey]
  | cons y ys ih =>
    simp only [insertKey]
    split
    · simp
    · split
      · rename_i h1 h2; subst h2; simp
      · simp [ih]; grind

theorem asc_insertKey (k : Nat) (l : List Nat) (h : Asc l) : Asc (insertKey k l) := by
  induction l with
  | nil => simp [insertKey, Asc]
  | cons y ys ih =>
    simp only [insertKey]
    have hy := List.pairwise_cons.mp h
    split
    · rename_i hlt
      refine List.pairwise_cons.mpr ⟨?_, h⟩
      intro a ha
      simp only [List.mem_cons] at ha
      rcases ha with rfl | ha
      · exact hlt
      · have := hy.1 a ha; omega
    · split
      · exact h
      · rename_i h1 h2
        refine List.pairwise_cons.mpr ⟨?_, ih hy.2⟩
        intro a ha
        rw [mem_insertKey] at ha
        rcases ha with rfl | ha
        · omega
        · exact hy.1 a ha

theorem mem_extendSet (s ks : List Nat) (x : Nat) : x ∈ extendSet s ks ↔ x ∈ s ∨ x ∈ ks := by
  induction ks generalizing s with
  | nil => simp [extendSet]
  | cons k ks ih =>
    simp only [extendSet, List.foldl_cons] at ih ⊢
    rw [ih, mem_insertKey]; simp; grind

theorem asc_extendSet (s ks : List Nat) (h : Asc s) : Asc (extendSet s ks) := by
  induction ks generalizing s with
  | nil => simpa [extendSet] using h
  | cons k ks ih =>
    simp only [extendSet, List.foldl_cons] at ih ⊢
    exact ih _ (asc_insertKey k s h)

theorem extendSet_nil_iff (s ks : List Nat) : extendSet s ks = [] ↔ s = [] ∧ ks = [] := by
  constructor
  · intro h
    constructor
    · cases s with
      | nil => rfl
      | cons a as => have : a ∈ extendSet (a :: as) ks := (mem_extendSet _ _ _).mpr (Or.inl (by simp)); rw [h] at this; cases this
    · cases ks with
      | nil => rfl
      | cons a as => have : a ∈ extendSet s (a :: as) := (mem_extendSet _ _ _).mpr (Or.inr (by simp)); rw [h] at this; cases this
  · rintro ⟨rfl, rfl⟩; rfl

/-- Keys of a map. -/
def keys (m : BMap) : List Nat := m.map (·.1)

theorem keys_entryExtend (g : Nat) (bs : List Nat) (m : BMap) :
    keys (entryExtend g bs m) = insertKey g (keys m) := by
  induction m with
  | nil => simp [entryExtend, keys, insertKey]
  | cons e rest ih =>
    obtain ⟨x, xs⟩ := e
    simp only [entryExtend, keys, List.map_cons, insertKey] at ih ⊢
    split
    · simp
    · split
      · simp
      · simp [ih]

theorem lookup_cons (e : Nat × List Nat) (rest : BMap) (g : Nat) :
    lookup (e :: rest) g = if e.1 = g then some e.2 else lookup rest g := by
  simp only [lookup, List.find?_cons]
  by_cases h : e.1 = g <;> simp [h]

theorem lookup_entryExtend (g : Nat) (bs : List Nat) (m : BMap) (hm : Asc (keys m)) (g' : Nat) :
    lookup (entryExtend g bs m) g' =
      if g' = g then some (extendSet ((lookup m g).getD []) bs) else lookup m g' := by
  induction m with
  | nil =>
    simp only [entryExtend, lookup_cons]
    by_cases h : g = g' <;> simp [h, lookup, eq_comm]
  | cons e rest ih =>
    obtain ⟨x, xs⟩ := e
    have hk := List.pairwise_cons.mp hm
    simp only [entryExtend]
    by_cases h1 : g < x
    · simp only [h1, if_true, lookup_cons]
      by_cases h2 : g' = g
      · subst h2
        have hne : ¬ x = g' := by omega
        have hnot : lookup rest g' = none := by
          simp only [lookup, Option.map_eq_none_iff, List.find?_eq_none]
          intro e he
          have hlt : x < e.1 := hk.1 e.1 (List.mem_map_of_mem he)
          show ¬ (decide (e.1 = g') = true)
          simp only [decide_eq_true_eq]; omega
        simp [hne, hnot]
      · have : ¬ g = g' := fun h => h2 h.symm
        simp [h2, this]
    · simp only [h1, if_false]
      by_cases h2 : g = x
      · subst h2
        simp only [if_true, lookup_cons]
        by_cases h3 : g' = g
        · subst h3; simp
        · have : ¬ g = g' := fun h => h3 h.symm
          simp [h3, this]
      · simp only [h2, if_false, lookup_cons]
        rw [ih hk.2]
        by_cases h3 : x = g'
        · subst h3
          have : ¬ x = g := fun h => h2 h.symm
          simp [this]
        · simp only [h3, if_false]
          by_cases h4 : g' = g
          · subst h4
            have : ¬ x = g' := h3
            simp [this]
          · simp [h4]

theorem asc_keys_entryExtend (g : Nat) (bs : List Nat) (m : BMap) (hm : Asc (keys m)) :
    Asc (keys (entryExtend g bs m)) := by
  rw [keys_entryExtend]; exact asc_insertKey g _ hm

/-- Folding `entryExtend` over a group list. -/
def extendAll (m : BMap) (gs : List Group) : BMap := gs.foldl (fun m g => entryExtend g.1 g.2 m) m

theorem asc_keys_extendAll (m : BMap) (gs : List Group) (hm : Asc (keys m)) : Asc (keys (extendAll m gs)) := by
  induction gs generalizing m with
  | nil => simpa [extendAll] using hm
  | cons g gs ih => exact ih _ (asc_keys_entryExtend g.1 g.2 m hm)

theorem mem_keys_extendAll (m : BMap) (gs : List Group) (x : Nat) :
    x ∈ keys (extendAll m gs) ↔ x ∈ keys m ∨ x ∈ gs.map (·.1) := by
  induction gs generalizing m with
  | nil => simp [extendAll]
  | cons g gs ih =>
    simp only [extendAll, List.foldl_cons] at ih ⊢
    rw [ih, keys_entryExtend, mem_insertKey]; simp; grind

/-- Membership in the backup set of a group of `extendAll m gs`. -/
theorem mem_lookup_extendAll (m : BMap) (gs : List Group) (hm : Asc (keys m)) (g b : Nat) :
    b ∈ (lookup (extendAll m gs) g).getD [] ↔
      b ∈ (lookup m g).getD [] ∨ ∃ e ∈ gs, e.1 = g ∧ b ∈ e.2 := by
  induction gs generalizing m with
  | nil => simp [extendAll]
  | cons e gs ih =>
    simp only [extendAll, List.foldl_cons] at ih ⊢
    rw [ih _ (asc_keys_entryExtend e.1 e.2 m hm), lookup_entryExtend _ _ _ hm]
    by_cases h : g = e.1
    · subst h
      simp only [if_true, Option.getD_some, mem_extendSet]
      constructor
      · rintro ((h | h) | ⟨e', he', h1, h2⟩)
        · exact Or.inl h
        · exact Or.inr ⟨e, by simp, rfl, h⟩
        · exact Or.inr ⟨e', by simp [he'], h1, h2⟩
      · rintro (h | ⟨e', he', h1, h2⟩)
        · exact Or.inl (Or.inl h)
        · simp only [List.mem_cons] at he'
          rcases he' with rfl | he'
          · exact Or.inl (Or.inr h2)
          · exact Or.inr ⟨e', he', h1, h2⟩
    · simp only [h, if_false]
      constructor
      · rintro (h' | ⟨e', he', h1, h2⟩)
        · exact Or.inl h'
        · exact Or.inr ⟨e', by simp [he'], h1, h2⟩
      · rintro (h' | ⟨e', he', h1, h2⟩)
        · exact Or.inl h'
        · simp only [List.mem_cons] at he'
          rcases he' with rfl | he'
          · exact absurd h1.symm h
          · exact Or.inr ⟨e', he', h1, h2⟩

theorem lookup_isSome_iff (m : BMap) (g : Nat) : (lookup m g).isSome ↔ g ∈ keys m := by
  induction m with
  | nil => simp [lookup, keys]
  | cons e rest ih =>
    rw [lookup_cons]
    by_cases h : e.1 = g
    · simp [h, keys]
    · simp only [h, if_false, ih, keys, List.map_cons, List.mem_cons]
      constructor
      · intro h'; exact Or.inr h'
      · rintro (h' | h')
        · exact absurd h'.symm h
        · exact h'


/-! ### The retention window -/

/-- Number of non-empty groups of `m` that are newer than `g`. -/
def newerNonEmpty (m : BMap) (g : Nat) : Nat :=
  (m.filter (fun e => decide (g < e.1) && !e.2.isEmpty)).length

theorem newerNonEmpty_cons (e : Nat × List Nat) (m : BMap) (g : Nat) :
    newerNonEmpty (e :: m) g = (if g < e.1 ∧ e.2 ≠ [] then 1 else 0) + newerNonEmpty m g := by
  simp only [newerNonEmpty, List.filter_cons]
  by_cases h1 : g < e.1 <;> by_cases h2 : e.2 = [] <;> simp [h1, h2] <;> omega

theorem newerNonEmpty_reverse (m : BMap) (g : Nat) : newerNonEmpty m.reverse g = newerNonEmpty m g := by
  simp [newerNonEmpty, List.filter_reverse]

abbrev Desc (l : BMap) : Prop := (l.map (·.1)).Pairwise (· > ·)

theorem newerNonEmpty_zero_of_desc (l : BMap) (g : Nat) (h : ∀ e ∈ l, e.1 ≤ g) : newerNonEmpty l g = 0 := by
  simp only [newerNonEmpty, List.length_eq_zero_iff, List.filter_eq_nil_iff]
  intro e he; have := h e he; simp; omega

theorem findCut_mem (max : Nat) (l : BMap) (n c : Nat) (h : findCut max l n = some c) : c ∈ l.map (·.1) := by
  induction l generalizing n with
  | nil => simp [findCut] at h
  | cons e rest ih =>
    obtain ⟨g, bs⟩ := e
    simp only [findCut] at h
    split at h
    · exact List.mem_cons_of_mem _ (ih n h)
    · split at h
      · simp at h; subst h; simp
      · exact List.mem_cons_of_mem _ (ih _ h)

/-- Characterisation of the reverse scan on a descending list. -/
theorem findCut_spec (max : Nat) (l : BMap) (hl : Desc l) (n : Nat) (hn : n < max) :
    match findCut max l n with
    | some c => ∀ e ∈ l, (c ≤ e.1 ↔ n + newerNonEmpty l e.1 < max)
    | none => ∀ e ∈ l, n + newerNonEmpty l e.1 < max := by
  induction l generalizing n with
  | nil => simp [findCut]
  | cons e0 rest ih =>
    obtain ⟨g0, bs0⟩ := e0
    have hd := List.pairwise_cons.mp hl
    have hlt : ∀ e ∈ rest, e.1 < g0 := fun e he => hd.1 e.1 (List.mem_map_of_mem he)
    have hhead : newerNonEmpty ((g0, bs0) :: rest) g0 = 0 :=
      newerNonEmpty_zero_of_desc _ _ (by
        intro e he; simp only [List.mem_cons] at he
        rcases he with rfl | he
        · exact Nat.le_refl _
        · exact Nat.le_of_lt (hlt e he))
    simp only [findCut]
    by_cases hbs : bs0 = []
    · subst hbs
      simp only [List.isEmpty_nil, if_true]
      have ih' := ih hd.2 n hn
      have hc : ∀ e ∈ rest, newerNonEmpty ((g0, []) :: rest) e.1 = newerNonEmpty rest e.1 := by
        intro e he; rw [newerNonEmpty_cons]; simp
      cases hf : findCut max rest n with
      | none =>
        rw [hf] at ih'
        intro e he
        simp only [List.mem_cons] at he
        rcases he with rfl | he
        · rw [hhead]; omega
        · rw [hc e he]; exact ih' e he
      | some c =>
        rw [hf] at ih'
        have hcm := findCut_mem max rest n c hf
        obtain ⟨ec, hec, hec2⟩ := List.mem_map.mp hcm
        have hcg : c < g0 := by rw [← hec2]; exact hlt ec hec
        intro e he
        simp only [List.mem_cons] at he
        rcases he with rfl | he
        · rw [hhead]; simp; omega
        · rw [hc e he]; exact ih' e he
    · have hne : bs0.isEmpty = false := by cases bs0 <;> simp_all
      simp only [hne, Bool.false_eq_true, if_false]
      have hc : ∀ e ∈ rest, newerNonEmpty ((g0, bs0) :: rest) e.1 = 1 + newerNonEmpty rest e.1 := by
        intro e he; rw [newerNonEmpty_cons]; simp [hlt e he, hbs]
      by_cases hmax : n + 1 ≥ max
      · simp only [hmax, if_true]
        intro e he
        simp only [List.mem_cons] at he
        rcases he with rfl | he
        · rw [hhead]; simp; omega
        · rw [hc e he]; have := hlt e he; constructor <;> intro h <;> omega
      · simp only [hmax, if_false]
        have ih' := ih hd.2 (n + 1) (by omega)
        cases hf : findCut max rest (n + 1) with
        | none =>
          rw [hf] at ih'
          intro e he
          simp only [List.mem_cons] at he
          rcases he with rfl | he
          · rw [hhead]; omega
          · rw [hc e he]; have := ih' e he; omega
        | some c =>
          rw [hf] at ih'
          have hcm := findCut_mem max rest (n + 1) c hf
          obtain ⟨ec, hec, hec2⟩ := List.mem_map.mp hcm
          have hcg : c < g0 := by rw [← hec2]; exact hlt ec hec
          intro e he
          simp only [List.mem_cons] at he
          rcases he with rfl | he
          · rw [hhead]; simp; omega
          · rw [hc e he]; have := ih' e he; constructor <;> intro h <;> omega

theorem newerNonEmpty_lt_length (m : BMap) (e : Nat × List Nat) (he : e ∈ m) : newerNonEmpty m e.1 < m.length := by
  induction m with
  | nil => cases he
  | cons x xs ih =>
    rw [newerNonEmpty_cons]
    simp only [List.mem_cons] at he
    rcases he with rfl | he
    · have : newerNonEmpty xs e.1 ≤ xs.length := by simp [newerNonEmpty]; exact List.length_filter_le _ _
      simp; omega
    · have := ih he
      simp only [List.length_cons]
      split <;> omega

/-- The map before the window is cut. -/
def merged (localGs cloudGs : List Group) : BMap := extendAll (mapping localGs) cloudGs

theorem asc_keys_merged (localGs cloudGs : List Group) : Asc (keys (merged localGs cloudGs)) := by
  apply asc_keys_extendAll
  exact asc_keys_extendAll [] localGs (by simp [keys, Asc])

theorem targetGroups_eq (localGs cloudGs : List Group) (max : Nat) :
    targetGroups localGs cloudGs max =
      (if (merged localGs cloudGs).length > max then
        match findCut max (merged localGs cloudGs).reverse 0 with
        | some first => (merged localGs cloudGs).filter (fun e => first ≤ e.1)
        | none => merged localGs cloudGs
      else merged localGs cloudGs) := rfl

/-- **Window characterisation**: an entry of the merged map survives `get_target_backup_groups`
iff fewer than `max` non-empty groups are newer than it. -/
theorem mem_targetGroups (localGs cloudGs : List Group) (max : Nat) (hmax : 0 < max) (e : Nat × List Nat) :
    e ∈ targetGroups localGs cloudGs max ↔
      e ∈ merged localGs cloudGs ∧ newerNonEmpty (merged localGs cloudGs) e.1 < max := by
  have hasc := asc_keys_merged localGs cloudGs
  rw [targetGroups_eq]
  generalize merged localGs cloudGs = tm at hasc ⊢
  split
  · have hdesc : Desc tm.reverse := by
      simp only [Desc, List.map_reverse, List.pairwise_reverse]
      exact hasc
    have hs := findCut_spec max tm.reverse hdesc 0 hmax
    split
    · rename_i first hf
      rw [hf] at hs
      simp only [List.mem_filter, decide_eq_true_eq]
      constructor
      · rintro ⟨h1, h2⟩
        have := (hs e (List.mem_reverse.mpr h1)).mp h2
        rw [newerNonEmpty_reverse] at this
        exact ⟨h1, by omega⟩
      · rintro ⟨h1, h2⟩
        refine ⟨h1, (hs e (List.mem_reverse.mpr h1)).mpr ?_⟩
        rw [newerNonEmpty_reverse]; omega
    · rename_i hf
      rw [hf] at hs
      constructor
      · intro h1
        have := hs e (List.mem_reverse.mpr h1)
        rw [newerNonEmpty_reverse] at this
        exact ⟨h1, by omega⟩
      · exact fun h => h.1
  · rename_i hlen
    constructor
    · intro h1; exact ⟨h1, by have := newerNonEmpty_lt_length tm e h1; omega⟩
    · exact fun h => h.1


/-! ### The loops -/

theorem uploadBackups_spec (fails : Act → Bool) (g : Nat) (cbs : List Nat) :
    ∀ (bs : List Nat) (ok : Bool),
      (∀ a, a ∈ (uploadBackups fails g cbs bs ok).1 ↔ ∃ b ∈ bs, b ∉ cbs ∧ a = .upload g b) ∧
      ((uploadBackups fails g cbs bs ok).2 = true ↔
        ok = true ∧ ∀ b ∈ bs, b ∉ cbs → fails (.upload g b) = false) := by
  intro bs
  induction bs with
  | nil => intro ok; simp [uploadBackups]
  | cons b bs ih =>
    intro ok
    simp only [uploadBackups]
    by_cases hc : cbs.contains b = true
    · simp only [hc, if_true]
      have hmem : b ∈ cbs := by simpa using hc
      obtain ⟨h1, h2⟩ := ih ok
      constructor
      · intro a; rw [h1 a]; simp only [List.mem_cons]
        constructor
        · rintro ⟨b', hb', hn, rfl⟩; exact ⟨b', Or.inr hb', hn, rfl⟩
        · rintro ⟨b', hb' | hb', hn, rfl⟩
          · subst hb'; exact absurd hmem hn
          · exact ⟨b', hb', hn, rfl⟩
      · rw [h2]; simp only [List.mem_cons]
        constructor
        · rintro ⟨h, h'⟩; refine ⟨h, ?_⟩
          rintro b' (rfl | hb') hn
          · exact absurd hmem hn
          · exact h' b' hb' hn
        · rintro ⟨h, h'⟩; exact ⟨h, fun b' hb' hn => h' b' (Or.inr hb') hn⟩
    · simp only [hc, Bool.false_eq_true, if_false]
      have hmem : b ∉ cbs := by simpa using hc
      obtain ⟨h1, h2⟩ := ih (ok && !fails (.upload g b))
      constructor
      · intro a; simp only [List.mem_cons]; rw [h1 a]
        constructor
        · rintro (rfl | ⟨b', hb', hn, rfl⟩)
          · exact ⟨b, Or.inl rfl, hmem, rfl⟩
          · exact ⟨b', Or.inr hb', hn, rfl⟩
        · rintro ⟨b', hb' | hb', hn, rfl⟩
          · subst hb'; exact Or.inl rfl
          · exact Or.inr ⟨b', hb', hn, rfl⟩
      · rw [h2]; simp only [List.mem_cons, Bool.and_eq_true, Bool.not_eq_true']
        constructor
        · rintro ⟨⟨h, hf⟩, h'⟩; refine ⟨h, ?_⟩
          rintro b' (rfl | hb') hn
          · exact hf
          · exact h' b' hb' hn
        · rintro ⟨h, h'⟩
          exact ⟨⟨h, h' b (Or.inl rfl) hmem⟩, fun b' hb' hn => h' b' (Or.inr hb') hn⟩

/-- Everything the upload loop guarantees. -/
structure UploadGroupsSpec (fails : Act → Bool) (cloud tgt : BMap) (ok : Bool) (out : List Act × Bool) : Prop where
  upload : ∀ g b, Act.upload g b ∈ out.1 → ∃ bs, (g, bs) ∈ tgt ∧ b ∈ bs ∧ b ∉ (lookup cloud g).getD []
  create : ∀ g, Act.createGroup g ∈ out.1 → (∃ bs, (g, bs) ∈ tgt ∧ bs ≠ []) ∧ lookup cloud g = none
  noDelete : ∀ g, Act.delete g ∉ out.1
  okImp : out.2 = true → ok = true ∧ ∀ g bs, (g, bs) ∈ tgt → bs ≠ [] →
      (lookup cloud g = none → Act.createGroup g ∈ out.1 ∧ fails (.createGroup g) = false) ∧
      ∀ b ∈ bs, b ∉ (lookup cloud g).getD [] → Act.upload g b ∈ out.1 ∧ fails (.upload g b) = false

theorem uploadGroups_spec (fails : Act → Bool) (cloud : BMap) :
    ∀ (tgt : BMap) (ok : Bool), UploadGroupsSpec fails cloud tgt ok (uploadGroups fails cloud tgt ok) := by
  intro tgt
  induction tgt with
  | nil =>
    intro ok
    exact ⟨by simp [uploadGroups], by simp [uploadGroups], by simp [uploadGroups],
      by intro h; exact ⟨by simpa [uploadGroups] using h, by simp⟩⟩
  | cons e rest ih =>
    intro ok
    obtain ⟨g0, bs0⟩ := e
    simp only [uploadGroups]
    by_cases hbs : bs0 = []
    · subst hbs
      simp only [List.isEmpty_nil, if_true]
      have r := ih ok
      refine ⟨?_, ?_, r.noDelete, ?_⟩
      · intro g b h; obtain ⟨bs, h1, h2⟩ := r.upload g b h; exact ⟨bs, List.mem_cons_of_mem _ h1, h2⟩
      · intro g h; obtain ⟨⟨bs, h1, h2⟩, h3⟩ := r.create g h; exact ⟨⟨bs, List.mem_cons_of_mem _ h1, h2⟩, h3⟩
      · intro h; obtain ⟨h1, h2⟩ := r.okImp h
        refine ⟨h1, ?_⟩
        intro g bs hm hne
        simp only [List.mem_cons, Prod.mk.injEq] at hm
        rcases hm with ⟨rfl, rfl⟩ | hm
        · exact absurd rfl hne
        · exact h2 g bs hm hne
    · have hne : bs0.isEmpty = false := by cases bs0 <;> simp_all
      simp only [hne, Bool.false_eq_true, if_false]
      cases hl : lookup cloud g0 with
      | some cbs =>
        simp only []
        obtain ⟨u1, u2⟩ := uploadBackups_spec fails g0 cbs bs0 ok
        have r := ih (uploadBackups fails g0 cbs bs0 ok).2
        refine ⟨?_, ?_, ?_, ?_⟩
        · intro g b h
          simp only [List.mem_append] at h
          rcases h with h | h
          · obtain ⟨b', hb', hn, heq⟩ := (u1 _).mp h
            cases heq
            exact ⟨bs0, by simp, hb', by simpa [hl] using hn⟩
          · obtain ⟨bs, h1, h2⟩ := r.upload g b h; exact ⟨bs, List.mem_cons_of_mem _ h1, h2⟩
        · intro g h
          simp only [List.mem_append] at h
          rcases h with h | h
          · obtain ⟨b', _, _, heq⟩ := (u1 _).mp h; cases heq
          · obtain ⟨⟨bs, h1, h2⟩, h3⟩ := r.create g h; exact ⟨⟨bs, List.mem_cons_of_mem _ h1, h2⟩, h3⟩
        · intro g h
          simp only [List.mem_append] at h
          rcases h with h | h
          · obtain ⟨b', _, _, heq⟩ := (u1 _).mp h; cases heq
          · exact r.noDelete g h
        · intro h
          obtain ⟨h1, h2⟩ := r.okImp h
          obtain ⟨h3, h4⟩ := u2.mp h1
          refine ⟨h3, ?_⟩
          intro g bs hm hne'
          simp only [List.mem_cons, Prod.mk.injEq] at hm
          rcases hm with ⟨rfl, rfl⟩ | hm
          · refine ⟨(by intro hc; rw [hl] at hc; cases hc), ?_⟩
            intro b hb hn
            rw [hl] at hn
            exact ⟨List.mem_append_left _ ((u1 _).mpr ⟨b, hb, by simpa using hn, rfl⟩), h4 b hb (by simpa using hn)⟩
          · obtain ⟨h5, h6⟩ := h2 g bs hm hne'
            exact ⟨fun hc => ⟨List.mem_append_right _ (h5 hc).1, (h5 hc).2⟩,
              fun b hb hn => ⟨List.mem_append_right _ (h6 b hb hn).1, (h6 b hb hn).2⟩⟩
      | none =>
        simp only []
        by_cases hf : fails (.createGroup g0) = true
        · simp only [hf, if_true]
          have r := ih false
          refine ⟨?_, ?_, ?_, ?_⟩
          · intro g b h
            simp only [List.mem_cons, reduceCtorEq, false_or] at h
            obtain ⟨bs, h1, h2⟩ := r.upload g b h; exact ⟨bs, List.mem_cons_of_mem _ h1, h2⟩
          · intro g h
            simp only [List.mem_cons, Act.createGroup.injEq] at h
            rcases h with rfl | h
            · exact ⟨⟨bs0, by simp, hbs⟩, hl⟩
            · obtain ⟨⟨bs, h1, h2⟩, h3⟩ := r.create g h; exact ⟨⟨bs, List.mem_cons_of_mem _ h1, h2⟩, h3⟩
          · intro g h
            simp only [List.mem_cons, reduceCtorEq, false_or] at h
            exact r.noDelete g h
          · intro h; have := (r.okImp h).1; cases this
        · have hf' : fails (.createGroup g0) = false := by simpa using hf
          simp only [hf', Bool.false_eq_true, if_false]
          obtain ⟨u1, u2⟩ := uploadBackups_spec fails g0 [] bs0 ok
          have r := ih (uploadBackups fails g0 [] bs0 ok).2
          refine ⟨?_, ?_, ?_, ?_⟩
          · intro g b h
            simp only [List.cons_append, List.mem_cons, reduceCtorEq, false_or, List.mem_append] at h
            rcases h with h | h
            · obtain ⟨b', hb', hn, heq⟩ := (u1 _).mp h
              cases heq
              exact ⟨bs0, by simp, hb', by simp [hl]⟩
            · obtain ⟨bs, h1, h2⟩ := r.upload g b h; exact ⟨bs, List.mem_cons_of_mem _ h1, h2⟩
          · intro g h
            simp only [List.cons_append, List.mem_cons, Act.createGroup.injEq, List.mem_append] at h
            rcases h with rfl | h | h
            · exact ⟨⟨bs0, by simp, hbs⟩, hl⟩
            · obtain ⟨b', _, _, heq⟩ := (u1 _).mp h; cases heq
            · obtain ⟨⟨bs, h1, h2⟩, h3⟩ := r.create g h; exact ⟨⟨bs, List.mem_cons_of_mem _ h1, h2⟩, h3⟩
          · intro g h
            simp only [List.cons_append, List.mem_cons, reduceCtorEq, false_or, List.mem_append] at h
            rcases h with h | h
            · obtain ⟨b', _, _, heq⟩ := (u1 _).mp h; cases heq
            · exact r.noDelete g h
          · intro h
            obtain ⟨h1, h2⟩ := r.okImp h
            obtain ⟨h3, h4⟩ := u2.mp h1
            refine ⟨h3, ?_⟩
            intro g bs hm hne'
            simp only [List.mem_cons, Prod.mk.injEq] at hm
            rcases hm with ⟨rfl, rfl⟩ | hm
            · refine ⟨fun _ => ⟨by simp, hf'⟩, ?_⟩
              intro b hb hn
              refine ⟨?_, h4 b hb (by simp)⟩
              simp only [List.cons_append, List.mem_cons, reduceCtorEq, false_or, List.mem_append]
              exact Or.inl ((u1 _).mpr ⟨b, hb, by simp, rfl⟩)
            · obtain ⟨h5, h6⟩ := h2 g bs hm hne'
              refine ⟨fun hc => ⟨?_, (h5 hc).2⟩, fun b hb hn => ⟨?_, (h6 b hb hn).2⟩⟩
              · simp only [List.cons_append, List.mem_cons, List.mem_append]
                exact Or.inr (Or.inr (h5 hc).1)
              · simp only [List.cons_append, List.mem_cons, List.mem_append]
                exact Or.inr (Or.inr (h6 b hb hn).1)

theorem mem_deleteGroups (target : BMap) (ok : Bool) (cloud : BMap) (a : Act) :
    a ∈ deleteGroups target ok cloud ↔
      ∃ g, a = .delete g ∧ g ∈ keys cloud ∧ g ∉ keys target ∧ ok = true := by
  induction cloud with
  | nil => simp [deleteGroups, keys]
  | cons e rest ih =>
    obtain ⟨g0, bs0⟩ := e
    simp only [deleteGroups]
    by_cases h1 : (lookup target g0).isSome = true
    · simp only [h1, if_true, ih, keys, List.map_cons, List.mem_cons]
      have hk := (lookup_isSome_iff target g0).mp h1
      constructor
      · rintro ⟨g, rfl, h2, h3, h4⟩; exact ⟨g, rfl, Or.inr h2, h3, h4⟩
      · rintro ⟨g, rfl, h2 | h2, h3, h4⟩
        · subst h2; exact absurd hk h3
        · exact ⟨g, rfl, h2, h3, h4⟩
    · simp only [h1, Bool.false_eq_true, if_false]
      have hk : g0 ∉ keys target := fun h => h1 ((lookup_isSome_iff target g0).mpr h)
      cases ok with
      | false =>
        simp only [Bool.not_false, if_true, ih]
        simp
      | true =>
        simp only [Bool.not_true, Bool.false_eq_true, if_false, List.mem_cons, ih, keys, List.map_cons]
        constructor
        · rintro (rfl | ⟨g, rfl, h2, h3, h4⟩)
          · exact ⟨g0, rfl, Or.inl rfl, hk, trivial⟩
          · exact ⟨g, rfl, Or.inr h2, h3, h4⟩
        · rintro ⟨g, rfl, h2 | h2, h3, h4⟩
          · subst h2; exact Or.inl rfl
          · exact Or.inr ⟨g, rfl, h2, h3, h4⟩

end Vsb.Sync
