import VsbModel.Lemmas.RestoreGroup
set_option linter.unusedSimpArgs false
set_option linter.unusedSectionVars false
set_option linter.unusedVariables false

/-!
The target step, continued: a file entry that carries data — its fan-out inside the backup (paths of files
recorded `extern` with the same content are written first, with their missing ancestors pre-created), then
the file itself, the verification, and its metadata.
-/
namespace Vsb.Restore
variable {H β : Type} [DecidableEq H]

/-- `TInv` in the middle of a fan-out: `done` = the fan-out paths of the current entry written so far. -/
structure MInv (stored : String → Bool) (es : List (Entry β)) (F0 : List (String × RFile H)) (EXT : List String)
    (pre : List (Entry β)) (done : List String) (st : RSt β) : Prop where
  ok : st.ok = true
  missing : st.missing = []
  pendNodup : st.pending.Nodup
  pend : ∀ q, q ∈ st.pending ↔ q ∈ EXT ∧ q ∉ st.restored
  restd : ∀ q ∈ st.restored, (∃ a ∈ pre, ∃ info, (keyE a, info) ∈ F0 ∧ q ∈ info.paths.dropLast) ∨ q ∈ done
  restd' : ∀ a ∈ pre, ∀ info, (keyE a, info) ∈ F0 → ∀ q ∈ info.paths.dropLast, q ∈ st.restored
  doneIn : ∀ q ∈ done, q ∈ st.restored
  pcNodup : st.preCreated.Nodup
  pc : ∀ q ∈ st.preCreated, ∃ d ∈ es, d ∉ pre ∧ d.isDir = true ∧ fpOf d = q
  sched : st.scheduled = schedT stored pre
  fsSome : ∀ q n, fsGet st.fs q = some n → ∃ e ∈ es, fpOf e = q ∧ Present stored pre st.preCreated st.restored e ∧ n = nodeT stored e
  fsPresent : ∀ e ∈ es, Present stored pre st.preCreated st.restored e → fsGet st.fs (fpOf e) = some (nodeT stored e)

theorem MInv.ofT {stored : String → Bool} {es : List (Entry β)} {F0 : List (String × RFile H)} {EXT : List String}
    {pre : List (Entry β)} {st : RSt β} {seen : List String} (inv : TInv stored es F0 EXT pre st seen) :
    MInv stored es F0 EXT pre [] st :=
  { ok := inv.ok, missing := inv.missing, pendNodup := inv.pendNodup, pend := inv.pend
    restd := fun q hq => Or.inl (inv.restd q hq), restd' := inv.restd', doneIn := fun q hq => by cases hq
    pcNodup := inv.pcNodup, pc := inv.pc, sched := inv.sched, fsSome := inv.fsSome, fsPresent := inv.fsPresent }

/-- Presence only grows when more directories are pre-created and more paths restored. -/
theorem present_mono (stored : String → Bool) (pre : List (Entry β)) (pc pc' : List FPath) (rs rs' : List String)
    (h1 : ∀ q ∈ pc, q ∈ pc') (h2 : ∀ q ∈ rs, q ∈ rs') (e : Entry β) (h : Present stored pre pc rs e) :
    Present stored pre pc' rs' e := by
  cases e with
  | dir p m => rcases h with h | h; exact Or.inl h; exact Or.inr (h1 _ h)
  | symlink p m t => exact h
  | file p m d =>
    simp only [Present] at h ⊢
    split
    · rename_i hx; rw [if_pos hx] at h; exact h2 _ h
    · rename_i hx; rw [if_neg hx] at h; exact h
  | other p => exact h

theorem parentOk_of_dir (fs : FS β) (p : FPath) (h : p.dropLast = [] ∨ ∃ m, fsGet fs p.dropLast = some (.dir m)) : parentOk fs p = true := by
  unfold parentOk
  rcases h with h | ⟨m, h⟩
  · rw [h]
  · cases hd : p.dropLast with
    | nil => rfl
    | cons c cs => rw [hd] at h; simp only [h]

/-- One path of the fan-out of the own file `a`. -/
theorem fan_step (hashOf : List β → H) (stored : String → Bool) (es : List (Entry β)) (F0 : List (String × RFile H)) (EXT : List String)
    (ctx : TCtx hashOf es stored F0 EXT) (pre : List (Entry β)) (hpre : ∀ x ∈ pre, x ∈ es) (a : Entry β) (ha : a ∈ es) (hapre : a ∉ pre)
    (hown : isOwnE stored a = true) (info : RFile H) (hinfo : (keyE a, info) ∈ F0)
    (done : List String) (q : String) (rest : List String) (hfan : info.paths.dropLast = done ++ q :: rest)
    (b : Entry β) (hb : b ∈ es) (hbext : isExtE stored b = true) (hbq : keyE b = q) (hbc : contentE b = contentE a)
    (hqext : q ∈ EXT)
    (st : RSt β) (inv : MInv stored es F0 EXT pre done st) (tail : List String) :
    ∃ st', createFiles (contentE a) (keyE a) true (q :: tail) st = createFiles (contentE a) (keyE a) true tail st' ∧
      MInv stored es F0 EXT pre (done ++ [q]) st' := by
  have wf := ctx.wf
  have hne_ab : b ≠ a := by intro h; subst h; exact own_not_ext stored _ hown hbext
  have hqkey : q ≠ keyE a := by
    intro h
    exact hne_ab (keyE_inj es wf b a hb ha (hbq.trans h))
  have hmp : manifestPathToFile q = some (fpOf b) := by rw [← hbq]; exact wf.keys b hb
  have hfanNodup : (info.paths.dropLast).Nodup :=
    nodup_flatMap_inner (fun kv : String × RFile H => kv.2.paths.dropLast) F0 ctx.fansDisjoint (keyE a, info) hinfo
  -- not restored yet
  have hqnr : q ∉ st.restored := by
    intro hin
    rcases inv.restd q hin with ⟨a', ha', info', hinfo', hq'⟩ | hd
    · have hkv := nodup_flatMap_disjoint (fun kv : String × RFile H => kv.2.paths.dropLast) F0 ctx.fansDisjoint
        (keyE a', info') (keyE a, info) hinfo' hinfo q hq' (by rw [hfan]; simp)
      have hk : keyE a' = keyE a := congrArg Prod.fst hkv
      have e1 : a' = a := keyE_inj es wf a' a (hpre a' ha') ha hk
      exact hapre (e1 ▸ ha')
    · rw [hfan] at hfanNodup
      have := (List.nodup_append.mp hfanNodup).2.2 q hd q (by simp)
      exact this rfl
  have hpend : st.pending.contains q = true := by
    have := (inv.pend q).mpr ⟨hqext, hqnr⟩
    simpa using this
  -- unfold one round of the loop
  have hsrc : (true && decide (q = keyE a)) = false := by simp [hqkey]
  rw [createFiles]
  simp only [hmp, hsrc, Bool.not_false, Bool.true_and, hpend, Bool.not_true, Bool.false_eq_true, if_false]
  -- the file system before this path is written
  have hfree : fsGet st.fs (fpOf b) = none := by
    cases hg : fsGet st.fs (fpOf b) with
    | none => rfl
    | some n =>
      obtain ⟨e', he', hfe, hp, _⟩ := inv.fsSome _ n hg
      have : e' = b := entry_of_fp es wf e' b he' hb hfe
      subst this
      cases e' with
      | file p' m' d' =>
        simp only [Present, hbext, if_true] at hp
        rw [hbq] at hp
        exact absurd hp hqnr
      | dir p' m' => cases hbext
      | symlink p' m' t' => cases hbext
      | other p' => cases hbext
  obtain ⟨hrd1, hrd2⟩ := restoreDirectories_spec st.fs (fpOf b)
  have hbne : fpOf b ≠ [] := tarPathToFile_ne_nil _ _ (wf.paths b hb)
  -- nodes at ancestor paths are directories
  have hancdir : ∀ q' ∈ pps [] (fpOf b), ∀ n, fsGet st.fs q' = some n → n = .dir none := by
    intro q' hq' n hn
    obtain ⟨d', hd', hdir', hfd'⟩ := pps_are_dirs es wf b hb q' hq'
    obtain ⟨e', he', hfe, _, hnode⟩ := inv.fsSome q' n hn
    have : e' = d' := entry_of_fp es wf e' d' he' hd' (hfe.trans hfd'.symm)
    subst this
    cases e' with
    | dir p' m' => exact hnode
    | file p' m' dd => cases hdir'
    | symlink p' m' t' => cases hdir'
    | other p' => cases hdir'
  have hfree2 : fsGet (restoreDirectories st.fs (fpOf b)).1 (fpOf b) = none := by
    rw [hrd1]
    have : fpOf b ∉ pps [] (fpOf b) := fun h => pps_ne_self _ _ h rfl
    simp [this, hfree]
  have hpar2 : parentOk (restoreDirectories st.fs (fpOf b)).1 (fpOf b) = true := by
    apply parentOk_of_dir
    by_cases hdl : (fpOf b).dropLast = []
    · exact Or.inl hdl
    · right
      have hin := dropLast_mem_pps (fpOf b) hdl
      rw [hrd1]
      cases hg : fsGet st.fs (fpOf b).dropLast with
      | none => exact ⟨none, by simp [hin]⟩
      | some n =>
        have := hancdir _ hin n hg
        subst this
        exact ⟨none, by simp⟩
  obtain ⟨fs2, hc, hview⟩ := fsCreate_ok (restoreDirectories st.fs (fpOf b)).1 (fpOf b) (.file (contentE a) none) hfree2 hpar2 hbne
  simp only [if_true, hc]
  refine ⟨_, rfl, ?_⟩
  -- the new view
  have hview2 : ∀ q', fsGet fs2 q' = if q' = fpOf b then some (.file (contentE a) none)
      else if fsGet st.fs q' = none ∧ q' ∈ pps [] (fpOf b) then some (.dir none) else fsGet st.fs q' := by
    intro q'; rw [hview q', hrd1 q']
  have hmade : ∀ q', q' ∈ (restoreDirectories st.fs (fpOf b)).2 ↔ q' ∈ pps [] (fpOf b) ∧ fsGet st.fs q' = none := by
    intro q'
    rw [hrd2, List.mem_filter]
    simp [Option.isNone_iff_eq_none]
  have hpmono : ∀ e, Present stored pre st.preCreated st.restored e →
      Present stored pre (st.preCreated ++ (restoreDirectories st.fs (fpOf b)).2) (st.restored ++ [q]) e :=
    fun e h => present_mono stored pre _ _ _ _ (fun x hx => List.mem_append_left _ hx) (fun x hx => List.mem_append_left _ hx) e h
  have hnodeb : nodeT stored b = .file (contentE a) none := by
    cases b with
    | file p' m' d' =>
      simp only [nodeT, hbext, if_true]
      rw [show d' = contentE a from hbc]
    | dir p' m' => cases hbext
    | symlink p' m' t' => cases hbext
    | other p' => cases hbext
  exact {
    ok := inv.ok, missing := inv.missing
    pendNodup := inv.pendNodup.erase _
    pend := fun q' => by
      simp only []
      rw [List.Nodup.mem_erase_iff inv.pendNodup, inv.pend q']
      simp only [List.mem_append, List.mem_singleton, not_or]
      constructor
      · rintro ⟨h1, h2, h3⟩; exact ⟨h2, h3, h1⟩
      · rintro ⟨h2, h3, h1⟩; exact ⟨h1, h2, h3⟩
    restd := fun q' hq' => by
      rcases List.mem_append.mp hq' with h | h
      · rcases inv.restd q' h with r | r
        · exact Or.inl r
        · exact Or.inr (List.mem_append_left _ r)
      · exact Or.inr (List.mem_append_right _ h)
    restd' := fun a' ha' info' hinfo' q' hq' => List.mem_append_left _ (inv.restd' a' ha' info' hinfo' q' hq')
    doneIn := fun q' hq' => by
      rcases List.mem_append.mp hq' with h | h
      · exact List.mem_append_left _ (inv.doneIn q' h)
      · exact List.mem_append_right _ h
    pcNodup := by
      simp only []
      rw [List.nodup_append]
      refine ⟨inv.pcNodup, ?_, ?_⟩
      · rw [hrd2]; exact (pps_nodup _ _).filter _
      · intro x hx y hy hxy
        subst hxy
        obtain ⟨d', hd', _, hdir', hfd'⟩ := inv.pc x hx
        have hp : Present stored pre st.preCreated st.restored d' := by
          cases d' with
          | dir p' m' => exact Or.inr (hfd' ▸ hx)
          | file p' m' dd => cases hdir'
          | symlink p' m' t' => cases hdir'
          | other p' => cases hdir'
        have := inv.fsPresent d' hd' hp
        rw [hfd', ((hmade x).mp hy).2] at this
        cases this
    pc := fun q' hq' => by
      rcases List.mem_append.mp hq' with h | h
      · exact inv.pc q' h
      · obtain ⟨h1, h2⟩ := (hmade q').mp h
        obtain ⟨d', hd', hdir', hfd'⟩ := pps_are_dirs es wf b hb q' h1
        refine ⟨d', hd', ?_, hdir', hfd'⟩
        intro hin
        have hp : Present stored pre st.preCreated st.restored d' := by
          cases d' with
          | dir p' m' => exact Or.inl hin
          | file p' m' dd => cases hdir'
          | symlink p' m' t' => cases hdir'
          | other p' => cases hdir'
        have := inv.fsPresent d' hd' hp
        rw [hfd', h2] at this
        cases this
    sched := inv.sched
    fsSome := fun q' n hq' => by
      rw [hview2 q'] at hq'
      by_cases h1 : q' = fpOf b
      · simp only [h1, if_true, Option.some.injEq] at hq'
        refine ⟨b, hb, h1.symm, ?_, by rw [hnodeb]; exact hq'.symm⟩
        cases b with
        | file p' m' d' => simp only [Present, hbext, if_true, hbq]; simp
        | dir p' m' => cases hbext
        | symlink p' m' t' => cases hbext
        | other p' => cases hbext
      · simp only [h1, if_false] at hq'
        by_cases h2 : fsGet st.fs q' = none ∧ q' ∈ pps [] (fpOf b)
        · simp only [h2, and_self, if_true, Option.some.injEq] at hq'
          obtain ⟨d', hd', hdir', hfd'⟩ := pps_are_dirs es wf b hb q' h2.2
          refine ⟨d', hd', hfd', ?_, ?_⟩
          · cases d' with
            | dir p' m' => exact Or.inr (List.mem_append_right _ ((hmade q').mpr ⟨h2.2, h2.1⟩ |> fun h => hfd' ▸ h))
            | file p' m' dd => cases hdir'
            | symlink p' m' t' => cases hdir'
            | other p' => cases hdir'
          · cases d' with
            | dir p' m' => exact hq'.symm
            | file p' m' dd => cases hdir'
            | symlink p' m' t' => cases hdir'
            | other p' => cases hdir'
        · simp only [h2, if_false] at hq'
          obtain ⟨e, hee, hfe, hp, hn⟩ := inv.fsSome q' n hq'
          exact ⟨e, hee, hfe, hpmono e hp, hn⟩
    fsPresent := fun e hee hp => by
      rw [hview2]
      by_cases heb : e = b
      · subst heb
        simp only [if_true, hnodeb]
      · have hfne : fpOf e ≠ fpOf b := fun h => heb (entry_of_fp es wf e b hee hb h)
        simp only [hfne, if_false]
        -- either it was present before, or it is one of the directories just made
        have hold_or : Present stored pre st.preCreated st.restored e ∨
            (e.isDir = true ∧ fpOf e ∈ (restoreDirectories st.fs (fpOf b)).2) := by
          cases e with
          | dir p' m' =>
            rcases hp with h | h
            · exact Or.inl (Or.inl h)
            · rcases List.mem_append.mp h with h | h
              · exact Or.inl (Or.inr h)
              · exact Or.inr ⟨rfl, h⟩
          | symlink p' m' t' => exact Or.inl hp
          | file p' m' d' =>
            left
            simp only [Present] at hp ⊢
            split
            · rename_i hx
              rw [if_pos hx] at hp
              rcases List.mem_append.mp hp with h | h
              · exact h
              · simp only [List.mem_singleton] at h
                exfalso
                exact heb (keyE_inj es wf _ b hee hb (h.trans hbq.symm))
            · rename_i hx
              rw [if_neg hx] at hp
              exact hp
          | other p' => exact Or.inl hp
        rcases hold_or with hold | ⟨hdir, hmd⟩
        · have hg := inv.fsPresent e hee hold
          have : ¬ (fsGet st.fs (fpOf e) = none ∧ fpOf e ∈ pps [] (fpOf b)) := by
            intro h; rw [h.1] at hg; cases hg
          simp only [this, if_false]
          exact hg
        · obtain ⟨h1, h2⟩ := (hmade _).mp hmd
          simp only [h2, h1, and_self, if_true]
          cases e with
          | dir p' m' => rfl
          | file p' m' dd => cases hdir
          | symlink p' m' t' => cases hdir
          | other p' => cases hdir }

/-- The whole fan-out of the own file `a`. -/
theorem fan_loop (hashOf : List β → H) (stored : String → Bool) (es : List (Entry β)) (F0 : List (String × RFile H)) (EXT : List String)
    (ctx : TCtx hashOf es stored F0 EXT) (pre : List (Entry β)) (hpre : ∀ x ∈ pre, x ∈ es) (a : Entry β) (ha : a ∈ es) (hapre : a ∉ pre)
    (hown : isOwnE stored a = true) (info : RFile H) (hinfo : (keyE a, info) ∈ F0)
    (hfacts : ∀ q ∈ info.paths.dropLast, q ∈ EXT ∧ ∃ b ∈ es, isExtE stored b = true ∧ keyE b = q ∧ contentE b = contentE a)
    (tail : List String) :
    ∀ (qs done : List String) (st : RSt β), info.paths.dropLast = done ++ qs → MInv stored es F0 EXT pre done st →
      ∃ st', createFiles (contentE a) (keyE a) true (qs ++ tail) st = createFiles (contentE a) (keyE a) true tail st' ∧
        MInv stored es F0 EXT pre (done ++ qs) st' := by
  intro qs
  induction qs with
  | nil => intro done st _ inv; exact ⟨st, rfl, by simpa using inv⟩
  | cons q rest ih =>
    intro done st hfan inv
    obtain ⟨hqext, b, hb, hbext, hbq, hbc⟩ := hfacts q (by rw [hfan]; simp)
    obtain ⟨st1, h1, inv1⟩ := fan_step hashOf stored es F0 EXT ctx pre hpre a ha hapre hown info hinfo done q rest hfan
      b hb hbext hbq hbc hqext st inv (rest ++ tail)
    obtain ⟨st2, h2, inv2⟩ := ih (done ++ [q]) st1 (by rw [hfan]; simp) inv1
    refine ⟨st2, ?_, by simpa using inv2⟩
    rw [List.cons_append, h1, h2]

/-- Processing, in the target archive, a file entry that carries its data (or is empty). -/
theorem step_own (hashOf : List β → H) (stored : String → Bool) (pad : String → List β) (es : List (Entry β)) (F0 : List (String × RFile H)) (EXT : List String)
    (ctx : TCtx hashOf es stored F0 EXT) (pre : List (Entry β)) (p : String) (m : Meta) (d : List β) (post : List (Entry β))
    (hs : es = pre ++ (.file p m d) :: post) (hown : isOwnE stored (.file p m d : Entry β) = true)
    (st : RSt β) (seen : List String) (inv : TInv stored es F0 EXT pre st seen) :
    ∃ st', processEntry hashOf F0 true st seen (stripE stored pad (.file p m d)) =
        some (st', seen ++ [keyE (.file p m d : Entry β)]) ∧
      TInv stored es F0 EXT (pre ++ [.file p m d]) st' (seen ++ [keyE (.file p m d : Entry β)]) := by
  have wf := ctx.wf
  have he : (.file p m d : Entry β) ∈ es := by rw [hs]; simp
  have hpre : ∀ x ∈ pre, x ∈ es := fun x hx => by rw [hs]; exact List.mem_append_left _ hx
  obtain ⟨hnotin, hfpne⟩ := split_notin es wf pre _ post hs
  have hpath := wf.paths _ he
  simp only [Entry.path] at hpath
  have hkeyp := wf.keys _ he
  obtain ⟨info, hinfo⟩ := ctx.f0_all _ he hown
  have hget : mapGet F0 (keyE (.file p m d : Entry β)) = some info := mapGet_of_mem F0 ctx.keysNodup _ _ hinfo
  obtain ⟨a0, ha0, _, hk0, hhash, hsize, fan, hpaths, hfan⟩ := ctx.f0_keys _ hinfo
  have ha0e : a0 = .file p m d := keyE_inj es wf a0 _ ha0 he hk0.symm
  subst ha0e
  simp only [contentE] at hhash hsize hfan
  have hdl : info.paths.dropLast = fan := by rw [hpaths]; simp
  -- the archived data begins with the content (an empty file that is not stored has an empty entry)
  have hdata : ∃ tail, (if stored p = true then padded pad p d else []) = d ++ tail := by
    simp only [isOwnE, Bool.or_eq_true, List.isEmpty_iff] at hown
    by_cases hsp : stored p = true
    · obtain ⟨tail, ht⟩ := padded_eq pad p d
      exact ⟨tail, by simp [hsp, ht]⟩
    · rcases hown with h | h
      · subst h; exact ⟨[], by simp [hsp]⟩
      · exact absurd h hsp
  obtain ⟨tail, hdata⟩ := hdata
  have hk : ("/" ++ "/".intercalate (fpOf (Entry.file p m d : Entry β))) = keyE (Entry.file p m d : Entry β) := rfl
  have hfp' : ∀ x : List β, fpOf (Entry.file p m x : Entry β) = fpOf (Entry.file p m d : Entry β) := fun _ => rfl
  simp only [stripE, hdata, processEntry, hpath, hk, hget]
  -- restore_files: the fan-out …
  unfold restoreFiles
  have htake : (d ++ tail).take info.size = d := by rw [hsize]; simp
  rw [htake, hpaths]
  obtain ⟨st1, h1, inv1⟩ := fan_loop hashOf stored es F0 EXT ctx pre hpre _ he hnotin hown info hinfo
    (by rw [hdl]; exact hfan) [keyE (.file p m d : Entry β)] fan [] st (by rw [hdl]; rfl) (MInv.ofT inv)
  simp only [contentE, List.nil_append] at h1 inv1
  rw [h1]
  -- … then the file itself
  have hfree : fsGet st1.fs (fpOf (.file p m d : Entry β)) = none := by
    cases hg : fsGet st1.fs (fpOf (.file p m d : Entry β)) with
    | none => rfl
    | some n =>
      obtain ⟨e', he', hfe, hp, _⟩ := inv1.fsSome _ n hg
      have : e' = .file p m d := entry_of_fp es wf e' _ he' he hfe
      subst this
      have hne : ¬ (isExtE stored (.file p m d : Entry β) = true) := fun h => own_not_ext stored _ hown h
      simp only [Present, hne, if_false] at hp
      exact absurd hp hnotin
  have hpar : parentOk st1.fs (fpOf (.file p m d : Entry β)) = true := by
    apply parentOk_of_dir
    rcases wf.parents pre _ post hs with h | ⟨d0, hd0, hdir0, hfp0⟩
    · exact Or.inl h
    · right
      have hd0es := hpre d0 hd0
      have hp : Present stored pre st1.preCreated st1.restored d0 := by
        cases d0 with
        | dir p' m' => exact Or.inl hd0
        | file p' m' dd => cases hdir0
        | symlink p' m' t' => cases hdir0
        | other p' => cases hdir0
      have := inv1.fsPresent d0 hd0es hp
      rw [hfp0] at this
      cases d0 with
      | dir p' m' => exact ⟨none, this⟩
      | file p' m' dd => cases hdir0
      | symlink p' m' t' => cases hdir0
      | other p' => cases hdir0
  have hne : fpOf (.file p m d : Entry β) ≠ [] := tarPathToFile_ne_nil _ _ hpath
  obtain ⟨fs2, hc, hview⟩ := fsCreate_ok st1.fs _ (.file d none) hfree hpar hne
  have hkk : keyE (Entry.file p m d : Entry β) = keyOf (fpOf (Entry.file p m d : Entry β)) := rfl
  simp only [createFiles, hkk, hkeyp, Bool.true_and, decide_true, Bool.not_true, Bool.false_and, Bool.false_eq_true, if_false,
    if_true, hc]
  have hlen : ¬ ((d ++ tail).length < info.size) := by rw [hsize, List.length_append]; omega
  have hh : ¬ (hashOf d ≠ info.hash) := by rw [hhash]; simp
  have hcont : (fan ++ [keyOf (fpOf (Entry.file p m d : Entry β))]).contains (keyOf (fpOf (Entry.file p m d : Entry β))) = true := by simp
  simp only [hlen, hh, if_false, hcont, Bool.and_self, if_true, hkeyp]
  have hg2 : fsGet fs2 (fpOf (.file p m d : Entry β)) = some (.file d none) := by rw [hview]; simp
  obtain ⟨fs3, hsm, hview3⟩ := fsSetMeta_ok fs2 _ m _ hg2
  simp only [List.append_nil] at hsm ⊢
  rw [hsm]
  refine ⟨_, rfl, ?_⟩
  have hmem : ∀ x : Entry β, x ≠ .file p m d → (x ∈ pre ++ [.file p m d] ↔ x ∈ pre) := fun x hx => mem_snoc_of_ne pre _ x hx
  have hnext : ¬ (isExtE stored (.file p m d : Entry β) = true) := fun h => own_not_ext stored _ hown h
  have hsched : schedT stored (pre ++ [.file p m d]) = schedT stored pre := by
    rw [schedT_snoc]; simp [schedT, hnext]
  have hview4 : ∀ q, fsGet fs3 q = if q = fpOf (.file p m d : Entry β) then some (.file d (some m)) else fsGet st1.fs q := by
    intro q
    rw [hview3, hview]
    by_cases hq : q = fpOf (.file p m d : Entry β)
    · simp [hq, setMetaNode]
    · simp [hq]
  have hpres : ∀ x ∈ es, (Present stored (pre ++ [.file p m d]) st1.preCreated st1.restored x ↔
      Present stored pre st1.preCreated st1.restored x ∨ x = .file p m d) := by
    intro x hx
    by_cases hxe : x = .file p m d
    · subst hxe
      simp only [Present, hnext, if_false, or_true, iff_true]
      simp
    · cases x with
      | dir p' m' => simp only [present_dir_iff, hmem _ hxe, hxe, or_false]
      | symlink p' m' t' => simp only [Present, hmem _ hxe, hxe, or_false]
      | file p' m' d' => simp only [Present, hmem _ hxe, hxe, or_false]
      | other p' => simp only [Present, hxe, or_false]
  exact {
    ok := inv1.ok, missing := inv1.missing, pendNodup := inv1.pendNodup, pend := inv1.pend
    restd := fun q hq => by
      rcases inv1.restd q hq with ⟨a, ha, r⟩ | hd
      · exact ⟨a, List.mem_append_left _ ha, r⟩
      · exact ⟨.file p m d, by simp, info, hinfo, by rw [hdl]; exact hd⟩
    restd' := fun a ha info' hinfo' q hq => by
      rcases List.mem_append.mp ha with ha | ha
      · exact inv1.restd' a ha info' hinfo' q hq
      · simp only [List.mem_singleton] at ha
        subst ha
        have : info' = info := by
          have h1 := mapGet_of_mem F0 ctx.keysNodup _ _ hinfo'
          rw [hget] at h1
          exact (Option.some.inj h1).symm
        subst this
        rw [hdl] at hq
        exact inv1.doneIn q hq
    pcNodup := inv1.pcNodup
    pc := fun q hq => by
      obtain ⟨d', hd, hdn, hdir, hfp⟩ := inv1.pc q hq
      refine ⟨d', hd, ?_, hdir, hfp⟩
      intro hin
      rcases List.mem_append.mp hin with h | h
      · exact hdn h
      · simp only [List.mem_singleton] at h
        subst h
        cases hdir
    sched := by rw [hsched, ← inv1.sched]
    seenOk := fun a ha hown' => by
      rcases List.mem_append.mp ha with ha | ha
      · exact List.mem_append_left _ (inv.seenOk a ha hown')
      · simp only [List.mem_singleton] at ha
        subst ha
        simp only [List.mem_append, List.mem_singleton]
        exact Or.inr rfl
    fsSome := fun q n hq => by
      rw [hview4 q] at hq
      by_cases hqe : q = fpOf (.file p m d : Entry β)
      · simp only [hqe, if_true, Option.some.injEq] at hq
        refine ⟨.file p m d, he, hqe.symm, (hpres _ he).mpr (Or.inr rfl), ?_⟩
        simp only [nodeT, hnext, if_false]
        exact hq.symm
      · simp only [hqe, if_false] at hq
        obtain ⟨e, hee, hfe, hp, hn⟩ := inv1.fsSome q n hq
        exact ⟨e, hee, hfe, (hpres e hee).mpr (Or.inl hp), hn⟩
    fsPresent := fun e hee hp => by
      rw [hview4]
      rcases (hpres e hee).mp hp with hp | rfl
      · have hfx : fpOf e ≠ fpOf (.file p m d : Entry β) := by
          intro h
          have : e = .file p m d := entry_of_fp es wf e _ hee he h
          subst this
          simp only [Present, hnext, if_false] at hp
          exact hnotin hp
        simp only [hfx, if_false]
        exact inv1.fsPresent e hee hp
      · simp [nodeT, hnext] }

end Vsb.Restore

namespace Vsb.Restore
variable {H β : Type} [DecidableEq H]

theorem ext_of_not_own (stored : String → Bool) (p : String) (m : Meta) (d : List β)
    (h : ¬ (isOwnE stored (.file p m d : Entry β) = true)) : isExtE stored (.file p m d : Entry β) = true := by
  simp only [isOwnE, Bool.or_eq_true, not_or, Bool.not_eq_true] at h
  simp [isExtE, h.1, h.2]

/-- The loop over the entries of the target archive. -/
theorem target_entries (hashOf : List β → H) (stored : String → Bool) (pad : String → List β) (es : List (Entry β)) (F0 : List (String × RFile H)) (EXT : List String)
    (ctx : TCtx hashOf es stored F0 EXT) :
    ∀ (post pre : List (Entry β)) (st : RSt β) (seen : List String), es = pre ++ post → TInv stored es F0 EXT pre st seen →
      ∃ st' seen', processEntries hashOf F0 true (post.map (stripE stored pad)) st seen = some (st', seen') ∧
        TInv stored es F0 EXT es st' seen' := by
  intro post
  induction post with
  | nil =>
    intro pre st seen hs inv
    simp only [List.append_nil] at hs
    subst hs
    exact ⟨st, seen, rfl, inv⟩
  | cons e rest ih =>
    intro pre st seen hs inv
    have hs' : es = (pre ++ [e]) ++ rest := by rw [hs]; simp
    simp only [List.map_cons, processEntries]
    cases e with
    | dir p m =>
      obtain ⟨st1, h1, inv1⟩ := step_dir hashOf stored pad es F0 EXT ctx pre p m rest hs st seen inv
      rw [h1]
      exact ih _ st1 seen hs' inv1
    | symlink p m t =>
      obtain ⟨st1, h1, inv1⟩ := step_symlink hashOf stored pad es F0 EXT ctx pre p m t rest hs st seen inv
      rw [h1]
      exact ih _ st1 seen hs' inv1
    | file p m d =>
      by_cases hown : isOwnE stored (.file p m d : Entry β) = true
      · obtain ⟨st1, h1, inv1⟩ := step_own hashOf stored pad es F0 EXT ctx pre p m d rest hs hown st seen inv
        rw [h1]
        exact ih _ st1 _ hs' inv1
      · obtain ⟨st1, h1, inv1⟩ := step_ext hashOf stored pad es F0 EXT ctx pre p m d rest hs (ext_of_not_own stored p m d hown) st seen inv
        rw [h1]
        exact ih _ st1 seen hs' inv1
    | other p =>
      have := ctx.wf.noOther (.other p) (by rw [hs]; simp)
      cases this

theorem tinv_init (stored : String → Bool) (es : List (Entry β)) (F0 : List (String × RFile H)) (EXT : List String)
    (hn : EXT.Nodup) :
    TInv stored es F0 EXT [] ({ ok := true, pending := EXT, missing := [] } : RSt β) [] :=
  { ok := rfl, missing := rfl, pendNodup := hn
    pend := fun q => by simp
    restd := fun q hq => by cases hq
    restd' := fun a ha => by cases ha
    pcNodup := List.nodup_nil
    pc := fun q hq => by cases hq
    sched := rfl
    seenOk := fun a ha => by cases ha
    fsSome := fun q n hq => by simp [fsGet] at hq
    fsPresent := fun e he hp => by
      exfalso
      cases e with
      | dir p m => rcases hp with h | h <;> cases h
      | symlink p m t => cases hp
      | file p m d =>
        simp only [Present] at hp
        split at hp <;> cases hp
      | other p => exact hp }

end Vsb.Restore
