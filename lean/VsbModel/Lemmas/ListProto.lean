import VsbModel.Model.ListProto
set_option linter.unusedVariables false

namespace Vsb.ListProto
open Vsb.Proto
variable {α : Type}

/-- A successful listing is never partial: whatever the page size, the limit, the script and the fuel, if the
loop returns `ok` the result is everything from the starting offset on. -/
theorem pagedLoop_ok_exact (pageSize : Nat) (limit : Option Nat) (script : Nat → Resp) (l : List α) :
    ∀ (fuel off page k : Nat) (acc r : List α) (n : Nat),
      pagedLoop pageSize limit script l fuel off page k acc = .ok r n → r = acc ++ l.drop off := by
  intro fuel
  induction fuel with
  | zero => intro off page k acc r n h; simp [pagedLoop] at h
  | succ fuel ih =>
    intro off page k acc r n h
    unfold pagedLoop at h
    split at h
    · cases h
    · simp only at h
      split at h
      · rename_i hlast
        simp only [Res.ok.injEq] at h
        rw [← h.1]
        congr 1
        apply List.take_of_length_le
        simp only [List.length_drop]
        omega
      · have hrec : ∀ x, pagedLoop pageSize limit script l fuel (off + pageSize) (page + 1) (k + 1)
            (acc ++ (l.drop off).take pageSize) = x → x = .ok r n → r = acc ++ l.drop off := by
          intro x hx hxr
          rw [hxr] at hx
          have := ih _ _ _ _ _ _ hx
          rw [this, List.append_assoc]
          congr 1
          rw [← List.drop_drop]
          exact List.take_append_drop pageSize (l.drop off)
        split at h
        · split at h
          · cases h
          · exact hrec _ rfl h
        · exact hrec _ rfl h

/-- With usable replies, a positive page size, enough fuel and a sufficient page limit the listing succeeds. -/
theorem pagedLoop_complete (pageSize : Nat) (hs : 0 < pageSize) (limit : Option Nat) (script : Nat → Resp) (l : List α)
    (hgood : ∀ k, (script k).good = true) :
    ∀ (fuel off page k : Nat) (acc : List α), l.length - off < fuel →
      (∀ lim, limit = some lim → page + (l.length - off) / pageSize ≤ lim) →
      ∃ n, pagedLoop pageSize limit script l fuel off page k acc = .ok (acc ++ l.drop off) n := by
  intro fuel
  induction fuel with
  | zero => intro off page k acc h; omega
  | succ fuel ih =>
    intro off page k acc hf hl
    unfold pagedLoop
    simp only [hgood, Bool.not_true, Bool.false_eq_true, if_false]
    by_cases hlast : off + pageSize ≥ l.length
    · rw [if_pos hlast]
      refine ⟨k+1, ?_⟩
      congr 2
      apply List.take_of_length_le
      simp only [List.length_drop]; omega
    · rw [if_neg hlast]
      have hrem : l.length - (off + pageSize) < fuel := by omega
      have hdiv : (l.length - off) / pageSize = (l.length - (off + pageSize)) / pageSize + 1 := by
        have : l.length - off = (l.length - (off + pageSize)) + pageSize := by omega
        rw [this, Nat.add_div_right _ hs]
      have hfix : acc ++ (l.drop off).take pageSize ++ l.drop (off + pageSize) = acc ++ l.drop off := by
        rw [List.append_assoc]; congr 1
        rw [← List.drop_drop]; exact List.take_append_drop pageSize (l.drop off)
      cases limit with
      | none =>
        simp only
        obtain ⟨n, hn⟩ := ih (off + pageSize) (page+1) (k+1) (acc ++ (l.drop off).take pageSize) hrem (by intro lim h; cases h)
        exact ⟨n, by rw [hn, hfix]⟩
      | some lim =>
        simp only
        have hle := hl lim rfl
        rw [hdiv] at hle
        have key : ∀ X, page + (X + 1) ≤ lim → page + 1 + X ≤ lim ∧ ¬ page ≥ lim := by intro X h; omega
        obtain ⟨hle2, hpg⟩ := key _ hle
        rw [if_neg hpg]
        obtain ⟨n, hn⟩ := ih (off + pageSize) (page+1) (k+1) (acc ++ (l.drop off).take pageSize) hrem
          (by intro lim' h; cases h; exact hle2)
        exact ⟨n, by rw [hn, hfix]⟩

/-- An unusable reply to any request that is made turns the whole listing into an error. -/
theorem pagedLoop_fault (pageSize : Nat) (limit : Option Nat) (script : Nat → Resp) (l : List α) :
    ∀ (fuel off page k : Nat) (acc r : List α) (n : Nat),
      pagedLoop pageSize limit script l fuel off page k acc = .ok r n → ∀ j, k ≤ j → j < n → (script j).good = true := by
  intro fuel
  induction fuel with
  | zero => intro off page k acc r n h; simp [pagedLoop] at h
  | succ fuel ih =>
    intro off page k acc r n h j hkj hjn
    unfold pagedLoop at h
    split at h
    · cases h
    · rename_i hg
      have hgk : (script k).good = true := by simpa using hg
      simp only at h
      by_cases hjk : j = k
      · rw [hjk]; exact hgk
      · split at h
        · simp only [Res.ok.injEq] at h; omega
        · split at h
          · split at h
            · cases h
            · exact ih _ _ _ _ _ _ h j (by omega) hjn
          · exact ih _ _ _ _ _ _ h j (by omega) hjn

end Vsb.ListProto
