import VsbModel.Lemmas.RestorePlan
set_option linter.unusedSimpArgs false
set_option linter.unusedSectionVars false
set_option linter.unusedVariables false

/-! Planning liveness: if every extern record of the target has a supplier inside the group, `RestorePlan::new`
finds everything and raises no complaint. -/
namespace Vsb.Restore
variable {H β : Type} [DecidableEq H]

theorem inTf_push_rev (tf : ToFind H) (h : H) (p : String) (sz : Nat) (p' : String) (h' : H) (s' : Nat)
    (hin : InTf (toFindPush tf h p sz) p' h' s') : InTf tf p' h' s' ∨ (p' = p ∧ h' = h ∧ s' = sz) := by
  unfold toFindPush at hin
  obtain ⟨l, hl, hp⟩ := hin
  split at hl
  · obtain ⟨e, he, heq⟩ := List.mem_map.mp hl
    by_cases hk : e.1 = h
    · simp only [hk, if_true, Prod.mk.injEq] at heq
      obtain ⟨rfl, rfl⟩ := heq
      rcases List.mem_append.mp hp with h1 | h1
      · exact Or.inl ⟨e.2, by rw [← hk]; exact he, h1⟩
      · simp only [List.mem_singleton, Prod.mk.injEq] at h1
        exact Or.inr ⟨h1.1, rfl, h1.2⟩
    · simp only [hk, if_false] at heq
      subst heq
      exact Or.inl ⟨l, he, hp⟩
  · rcases List.mem_append.mp hl with h1 | h1
    · exact Or.inl ⟨l, h1, hp⟩
    · simp only [List.mem_singleton, Prod.mk.injEq] at h1
      obtain ⟨rfl, rfl⟩ := h1
      simp only [List.mem_singleton, Prod.mk.injEq] at hp
      exact Or.inr ⟨hp.1, rfl, hp.2⟩

theorem inTf_remove_rev (tf : ToFind H) (h : H) (p' : String) (h' : H) (s' : Nat)
    (hin : InTf (toFindRemove tf h).2 p' h' s') : InTf tf p' h' s' ∧ h' ≠ h := by
  unfold toFindRemove at hin
  obtain ⟨l, hl, hp⟩ := hin
  obtain ⟨h1, h2⟩ := List.mem_filter.mp hl
  exact ⟨⟨l, h1, hp⟩, by simpa using h2⟩

theorem found_inTf (tf : ToFind H) (h : H) (found : List (String × Nat)) (hf : (toFindRemove tf h).1 = some found) :
    ∀ ps ∈ found, InTf tf ps.1 h ps.2 := by
  unfold toFindRemove at hf
  simp only [Option.map_eq_some_iff] at hf
  obtain ⟨e, he, rfl⟩ := hf
  have hmem := List.mem_of_find?_eq_some he
  have hk := List.find?_some he
  simp only [decide_eq_true_eq] at hk
  intro ps hps
  exact ⟨e.2, by rw [← hk]; exact hmem, hps⟩

theorem notFound_noKey (tf : ToFind H) (h : H) (hf : (toFindRemove tf h).1 = none) :
    ∀ p h' s, InTf tf p h' s → h' ≠ h := by
  unfold toFindRemove at hf
  simp only [Option.map_eq_none_iff] at hf
  intro p h' s ⟨l, hl, _⟩ heq
  have := List.find?_eq_none.mp hf (h', l) hl
  simp [heq] at this

/-- Everything looked for stems from a record of `X`. -/
def TfFrom (X : List (MRec H)) (tf : ToFind H) : Prop :=
  ∀ p h s, InTf tf p h s → ∃ x ∈ X, x.path = p ∧ x.hash = h ∧ x.size = s

theorem pushFold_from (ext : List (MRec H)) (tf : ToFind H) (X : List (MRec H)) (h0 : TfFrom X tf) (hsub : ∀ e ∈ ext, e ∈ X) :
    TfFrom X (ext.foldl (fun tf r => toFindPush tf r.hash r.path r.size) tf) := by
  induction ext generalizing tf with
  | nil => exact h0
  | cons r rest ih =>
    simp only [List.foldl_cons]
    apply ih
    · intro p h s hin
      rcases inTf_push_rev tf r.hash r.path r.size p h s hin with h1 | ⟨rfl, rfl, rfl⟩
      · exact h0 p h s h1
      · exact ⟨r, hsub r (by simp), rfl, rfl, rfl⟩
    · intro e he; exact hsub e (List.mem_cons_of_mem _ he)

/-- Invariant of the fold over the target's own records. -/
structure OwnLive (X : List (MRec H)) (done : List (MRec H)) (acc : PlanAcc H) : Prop where
  ok : acc.ok = true
  keys : (acc.tf.map (·.1)).Nodup
  from_ : TfFrom X acc.tf
  notDone : ∀ p h s, InTf acc.tf p h s → ∀ r ∈ done, r.hash ≠ h
  fileKeys : ∀ k, acc.files.any (·.1 = k) = true → k ∈ done.map (·.path)

theorem ownStep_live (X done : List (MRec H)) (acc : PlanAcc H) (r : MRec H) (hi : OwnLive X done acc)
    (hnew : r.path ∉ done.map (·.path))
    (hsz : ∀ x ∈ X, x.hash = r.hash → x.size = r.size) : OwnLive X (done ++ [r]) (ownStep acc r) := by
  have hany : acc.files.any (·.1 = r.path) = false := by
    cases h : acc.files.any (·.1 = r.path) with
    | false => rfl
    | true => exact absurd (hi.fileKeys _ h) hnew
  refine ⟨?_, tfKeys_remove acc.tf r.hash hi.keys, ?_, ?_, ?_⟩
  · simp only [ownStep, hi.ok, hany, Bool.not_false, Bool.true_and]
    cases hf : (toFindRemove acc.tf r.hash).1 with
    | none => simp [sizesOk]
    | some found =>
      simp only [Option.getD_some, sizesOk, List.all_eq_true, decide_eq_true_eq]
      intro ps hps
      have hin := found_inTf acc.tf r.hash found hf ps hps
      obtain ⟨x, hx, _, hxh, hxs⟩ := hi.from_ _ _ _ hin
      rw [← hxs]; exact hsz x hx hxh
  · intro p h s hin
    exact hi.from_ p h s (inTf_remove_rev acc.tf r.hash p h s hin).1
  · intro p h s hin r' hr'
    obtain ⟨h1, h2⟩ := inTf_remove_rev acc.tf r.hash p h s hin
    rcases List.mem_append.mp hr' with h3 | h3
    · exact hi.notDone p h s h1 r' h3
    · simp only [List.mem_singleton] at h3; subst h3; exact fun heq => h2 heq.symm
  · intro k hk
    simp only [ownStep] at hk
    rcases mapInsert_keys acc.files r.path _ k hk with h1 | h1
    · simp only [List.map_append, List.mem_append]; exact Or.inl (hi.fileKeys k h1)
    · simp [h1]

theorem ownFold_live (X : List (MRec H)) :
    ∀ (own done : List (MRec H)) (acc : PlanAcc H), OwnLive X done acc →
      ((done ++ own).map (·.path)).Nodup →
      (∀ r ∈ own, ∀ x ∈ X, x.hash = r.hash → x.size = r.size) →
      OwnLive X (done ++ own) (own.foldl ownStep acc) := by
  intro own
  induction own with
  | nil => intro done acc h _ _; simpa using h
  | cons r rest ih =>
    intro done acc h hnd hsz
    have hnew : r.path ∉ done.map (·.path) := by
      rw [List.map_append, List.nodup_append] at hnd
      intro hin
      exact hnd.2.2 _ hin _ (by simp) rfl
    have := ih (done ++ [r]) (ownStep acc r) (ownStep_live X done acc r h hnew (hsz r (by simp)))
      (by simpa [List.append_assoc] using hnd) (fun r' hr' => hsz r' (List.mem_cons_of_mem _ hr'))
    simpa [List.append_assoc] using this

/-- Invariant of scanning one earlier manifest. -/
theorem earlierLoop_live (X : List (MRec H)) : ∀ (rs : List (MRec H)) (acc : PlanAcc H),
    acc.ok = true → (acc.tf.map (·.1)).Nodup → TfFrom X acc.tf →
    (∀ u ∈ rs, u.unique = true → ∀ x ∈ X, x.hash = u.hash → x.size = u.size) →
    (earlierLoop rs acc).ok = true ∧ ((earlierLoop rs acc).tf.map (·.1)).Nodup ∧ TfFrom X (earlierLoop rs acc).tf ∧
    (∀ p h s, InTf (earlierLoop rs acc).tf p h s → InTf acc.tf p h s ∧ ∀ u ∈ rs, u.unique = true → u.hash ≠ h) := by
  intro rs
  induction rs with
  | nil => intro acc hok hk hf _; exact ⟨hok, hk, hf, fun p h s hin => ⟨hin, by intro u hu; cases hu⟩⟩
  | cons r rest ih =>
    intro acc hok hk hf hsz
    unfold earlierLoop
    by_cases hemp : acc.tf.isEmpty = true
    · rw [if_pos hemp]
      refine ⟨hok, hk, hf, ?_⟩
      intro p h s ⟨l, hl, _⟩
      have : acc.tf = [] := by simpa using hemp
      rw [this] at hl; cases hl
    · rw [if_neg hemp]
      have hsz' : ∀ u ∈ rest, u.unique = true → ∀ x ∈ X, x.hash = u.hash → x.size = u.size :=
        fun u hu => hsz u (List.mem_cons_of_mem _ hu)
      by_cases hu : r.unique = true
      · simp only [hu, Bool.not_true, Bool.false_eq_true, if_false]
        cases hfnd : (toFindRemove acc.tf r.hash).1 with
        | none =>
          simp only
          obtain ⟨a, b, c, d⟩ := ih acc hok hk hf hsz'
          refine ⟨a, b, c, ?_⟩
          intro p h s hin
          obtain ⟨d1, d2⟩ := d p h s hin
          refine ⟨d1, ?_⟩
          intro u hu' huu
          rcases List.mem_cons.mp hu' with rfl | h3
          · exact fun heq => notFound_noKey acc.tf u.hash hfnd p h s d1 heq.symm
          · exact d2 u h3 huu
        | some found =>
          simp only
          have hok2 : (acc.ok && sizesOk found r.size) = true := by
            simp only [hok, Bool.true_and, sizesOk, List.all_eq_true, decide_eq_true_eq]
            intro ps hps
            have hin := found_inTf acc.tf r.hash found hfnd ps hps
            obtain ⟨x, hx, _, hxh, hxs⟩ := hf _ _ _ hin
            rw [← hxs]; exact hsz r (by simp) hu x hx hxh
          obtain ⟨a, b, c, d⟩ := ih (PlanAcc.mk (mapInsert acc.files r.path ⟨r.hash, r.size, found.map (·.1)⟩)
              (acc.ext ++ found.map (·.1)) (toFindRemove acc.tf r.hash).2 (acc.ok && sizesOk found r.size))
            hok2 (tfKeys_remove acc.tf r.hash hk)
            (fun p h s hin => hf p h s (inTf_remove_rev acc.tf r.hash p h s hin).1) hsz'
          refine ⟨a, b, c, ?_⟩
          intro p h s hin
          obtain ⟨d1, d2⟩ := d p h s hin
          obtain ⟨e1, e2⟩ := inTf_remove_rev acc.tf r.hash p h s d1
          refine ⟨e1, ?_⟩
          intro u hu' huu
          rcases List.mem_cons.mp hu' with rfl | h3
          · exact fun heq => e2 heq.symm
          · exact d2 u h3 huu
      · have hu' : r.unique = false := by simpa using hu
        simp only [hu', Bool.not_false, if_true]
        obtain ⟨a, b, c, d⟩ := ih acc hok hk hf hsz'
        refine ⟨a, b, c, ?_⟩
        intro p h s hin
        obtain ⟨d1, d2⟩ := d p h s hin
        refine ⟨d1, ?_⟩
        intro u hu2 huu
        rcases List.mem_cons.mp hu2 with rfl | h3
        · rw [hu'] at huu; cases huu
        · exact d2 u h3 huu

end Vsb.Restore

namespace Vsb.Restore
variable {H β : Type} [DecidableEq H]

/-- Invariant of the walk over the earlier backups. -/
theorem earlierBackups_live (X : List (MRec H)) (group : List (Backup H β)) :
    ∀ (idx : List Nat) (steps : List (Step H)) (ext : List String) (tf : ToFind H),
      (tf.map (·.1)).Nodup → TfFrom X tf →
      (∀ i ∈ idx, ∃ b rs, group[i]? = some b ∧ b.manifest = some rs ∧
        ∀ u ∈ rs, u.unique = true → ∀ x ∈ X, x.hash = u.hash → x.size = u.size) →
      ∃ steps' ext' tf', earlierBackups group idx steps ext tf true = some (steps', ext', tf', true) ∧
        ∀ p h s, InTf tf' p h s → InTf tf p h s ∧
          ∀ i ∈ idx, ∀ b rs, group[i]? = some b → b.manifest = some rs → ∀ u ∈ rs, u.unique = true → u.hash ≠ h := by
  intro idx
  induction idx with
  | nil =>
    intro steps ext tf _ _ _
    exact ⟨steps, ext, tf, rfl, fun p h s hin => ⟨hin, by intro i hi; cases hi⟩⟩
  | cons i rest ih =>
    intro steps ext tf hk hf hread
    unfold earlierBackups
    by_cases hemp : tf.isEmpty = true
    · rw [if_pos hemp]
      refine ⟨steps, ext, tf, rfl, ?_⟩
      intro p h s ⟨l, hl, _⟩
      have : tf = [] := by simpa using hemp
      rw [this] at hl; cases hl
    · rw [if_neg hemp]
      obtain ⟨b, rs, hb, hm, hsz⟩ := hread i (by simp)
      simp only [hb, hm]
      obtain ⟨a1, a2, a3, a4⟩ := earlierLoop_live X rs { tf := tf } rfl hk hf hsz
      unfold planEarlier
      simp only [Bool.true_and, a1]
      obtain ⟨steps', ext', tf', he, hrest⟩ := ih
        (if (earlierLoop rs { tf := tf }).files.isEmpty then steps else steps ++ [⟨i, (earlierLoop rs { tf := tf }).files⟩])
        (ext ++ (earlierLoop rs { tf := tf }).ext) (earlierLoop rs { tf := tf }).tf a2 a3
        (fun j hj => hread j (List.mem_cons_of_mem _ hj))
      refine ⟨steps', ext', tf', he, ?_⟩
      intro p h s hin
      obtain ⟨r1, r2⟩ := hrest p h s hin
      obtain ⟨q1, q2⟩ := a4 p h s r1
      refine ⟨q1, ?_⟩
      intro j hj b' rs' hb' hm' u hu huu
      rcases List.mem_cons.mp hj with rfl | hj'
      · rw [hb] at hb'; cases hb'
        rw [hm] at hm'; cases hm'
        exact q2 u hu huu
      · exact r2 j hj' b' rs' hb' hm' u hu huu

end Vsb.Restore
