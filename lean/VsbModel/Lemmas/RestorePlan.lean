import VsbModel.Lemmas.Restore
set_option linter.unusedSimpArgs false
set_option linter.unusedSectionVars false

namespace Vsb.Restore
variable {H β : Type} [DecidableEq H]

/-- Some file of `files` has `path` in its fan-out, with the given hash and size. -/
def CoveredBy (files : List (String × RFile H)) (path : String) (h : H) (size : Nat) : Prop :=
  ∃ key info, mapGet files key = some info ∧ path ∈ info.paths ∧ info.hash = h ∧ info.size = size

/-- `path` (claiming `size`) is still looked for under hash `h`. -/
def InTf (tf : ToFind H) (path : String) (h : H) (size : Nat) : Prop :=
  ∃ l, (h, l) ∈ tf ∧ (path, size) ∈ l

/-! #### association-list facts -/

theorem mapGet_insert_new {V : Type} (m : List (String × V)) (k : String) (v : V) (hk : m.any (·.1 = k) = false) :
    mapGet (mapInsert m k v) k = some v ∧ ∀ k', k' ≠ k → mapGet (mapInsert m k v) k' = mapGet m k' := by
  unfold mapInsert
  simp only [hk, Bool.false_eq_true, if_false]
  have hnone : m.find? (fun e => e.1 = k) = none := by
    rw [List.find?_eq_none]; intro e he
    have := List.any_eq_false.mp hk e he
    simpa using this
  constructor
  · unfold mapGet; rw [List.find?_append, hnone]; simp
  · intro k' hk'
    unfold mapGet; rw [List.find?_append]
    cases hf : m.find? (fun e => e.1 = k') with
    | some e => simp
    | none =>
      have : ¬ (k = k') := fun h => hk' h.symm
      simp [this]

theorem tfKeys_push (tf : ToFind H) (h : H) (p : String) (sz : Nat) (hn : (tf.map (·.1)).Nodup) :
    ((toFindPush tf h p sz).map (·.1)).Nodup := by
  unfold toFindPush
  split
  · have : (tf.map (fun e => if e.1 = h then (e.1, e.2 ++ [(p, sz)]) else e)).map (·.1) = tf.map (·.1) := by
      rw [List.map_map]; apply List.map_congr_left; intro e _; simp only [Function.comp]; split <;> rfl
    rw [this]; exact hn
  · rename_i hany
    simp only [List.map_append, List.map_cons, List.map_nil]
    rw [List.nodup_append]
    refine ⟨hn, by simp, ?_⟩
    intro a ha b hb hab
    simp only [List.mem_singleton] at hb
    subst hb; subst hab
    obtain ⟨e, he, rfl⟩ := List.mem_map.mp ha
    apply hany
    simp only [List.any_eq_true]
    exact ⟨e, he, by simp⟩

theorem inTf_push (tf : ToFind H) (h : H) (p : String) (sz : Nat) :
    InTf (toFindPush tf h p sz) p h sz ∧ ∀ p' h' s', InTf tf p' h' s' → InTf (toFindPush tf h p sz) p' h' s' := by
  unfold toFindPush
  by_cases hany : tf.any (·.1 = h) = true
  · simp only [hany, if_true]
    constructor
    · simp only [List.any_eq_true] at hany
      obtain ⟨e, he, heq⟩ := hany
      have heq' : e.1 = h := by simpa using heq
      refine ⟨e.2 ++ [(p, sz)], ?_, by simp⟩
      apply List.mem_map.mpr
      exact ⟨e, he, by simp [heq']⟩
    · rintro p' h' s' ⟨l, hl, hp⟩
      by_cases hh : h' = h
      · subst hh
        exact ⟨l ++ [(p, sz)], List.mem_map.mpr ⟨(h', l), hl, by simp⟩, by simp [hp]⟩
      · exact ⟨l, List.mem_map.mpr ⟨(h', l), hl, by simp [hh]⟩, hp⟩
  · simp only [hany, Bool.false_eq_true, if_false]
    constructor
    · exact ⟨[(p, sz)], by simp, by simp⟩
    · rintro p' h' s' ⟨l, hl, hp⟩
      exact ⟨l, by simp [hl], hp⟩

/-- Removing a hash: with unique keys, what was looked for under another hash stays, and what was under
this hash is returned. -/
theorem inTf_remove (tf : ToFind H) (h : H) (hn : (tf.map (·.1)).Nodup) (p' : String) (h' : H) (s' : Nat)
    (hin : InTf tf p' h' s') :
    (h' ≠ h → InTf (toFindRemove tf h).2 p' h' s') ∧
    (h' = h → ∃ found, (toFindRemove tf h).1 = some found ∧ (p', s') ∈ found) := by
  obtain ⟨l, hl, hp⟩ := hin
  unfold toFindRemove
  constructor
  · intro hne
    exact ⟨l, List.mem_filter.mpr ⟨hl, by simpa using hne⟩, hp⟩
  · intro heq
    subst heq
    simp only []
    -- the first entry with this key is (h', l) because keys are unique
    have : tf.find? (fun e => e.1 = h') = some (h', l) := by
      induction tf with
      | nil => cases hl
      | cons e rest ih =>
        simp only [List.map_cons, List.nodup_cons] at hn
        simp only [List.mem_cons] at hl
        simp only [List.find?_cons]
        by_cases he : e.1 = h'
        · rcases hl with rfl | hl
          · simp
          · exfalso; apply hn.1; rw [he]; exact List.mem_map.mpr ⟨(h', l), hl, rfl⟩
        · rcases hl with rfl | hl
          · exact absurd rfl he
          · simp only [he, decide_false]; exact ih hn.2 hl
    exact ⟨l, by simp [this], hp⟩

theorem tfKeys_remove (tf : ToFind H) (h : H) (hn : (tf.map (·.1)).Nodup) : (((toFindRemove tf h).2).map (·.1)).Nodup := by
  unfold toFindRemove
  simp only []
  exact List.Nodup.sublist (List.Sublist.map _ List.filter_sublist) hn

end Vsb.Restore

namespace Vsb.Restore
variable {H β : Type} [DecidableEq H]

theorem mapGet_some_any {V : Type} (m : List (String × V)) (k : String) (v : V) (h : mapGet m k = some v) :
    m.any (·.1 = k) = true := by
  unfold mapGet at h
  cases hf : m.find? (fun e => e.1 = k) with
  | none => simp [hf] at h
  | some e =>
    have hm := List.mem_of_find?_eq_some hf
    have hp := List.find?_some hf
    simp only [List.any_eq_true]
    exact ⟨e, hm, hp⟩

theorem coveredBy_insert_new (files : List (String × RFile H)) (k : String) (v : RFile H)
    (hk : files.any (·.1 = k) = false) (p : String) (h : H) (s : Nat) (hc : CoveredBy files p h s) :
    CoveredBy (mapInsert files k v) p h s := by
  obtain ⟨key, info, h1, h2, h3, h4⟩ := hc
  have hne : key ≠ k := by
    intro heq; subst heq
    have := mapGet_some_any files key info h1
    rw [hk] at this; cases this
  exact ⟨key, info, by rw [(mapGet_insert_new files k v hk).2 key hne]; exact h1, h2, h3, h4⟩

/-- Invariant of the second pass of `planTarget` over the own files processed so far. -/
structure OwnInv (tf0 : ToFind H) (done : List (MRec H)) (acc : PlanAcc H) : Prop where
  keys : (acc.tf.map (·.1)).Nodup
  cover : acc.ok = true →
    (∀ r ∈ done, CoveredBy acc.files r.path r.hash r.size) ∧
    (∀ p h s, InTf tf0 p h s → InTf acc.tf p h s ∨ CoveredBy acc.files p h s)

theorem ownStep_inv (tf0 : ToFind H) (done : List (MRec H)) (acc : PlanAcc H) (r : MRec H)
    (hi : OwnInv tf0 done acc) : OwnInv tf0 (done ++ [r]) (ownStep acc r) := by
  refine ⟨tfKeys_remove acc.tf r.hash hi.keys, ?_⟩
  intro hok
  simp only [ownStep, Bool.and_eq_true, Bool.not_eq_true'] at hok
  obtain ⟨⟨hok0, hnew⟩, hsz⟩ := hok
  obtain ⟨c1, c2⟩ := hi.cover hok0
  have hins := mapGet_insert_new acc.files r.path
    (⟨r.hash, r.size, (((toFindRemove acc.tf r.hash).1).getD []).map (·.1) ++ [r.path]⟩ : RFile H) hnew
  constructor
  · intro x hx
    simp only [List.mem_append, List.mem_singleton] at hx
    rcases hx with hx | rfl
    · exact coveredBy_insert_new _ _ _ hnew _ _ _ (c1 x hx)
    · exact ⟨x.path, _, hins.1, by simp, rfl, rfl⟩
  · intro p h s hin
    rcases c2 p h s hin with hin' | hcov
    · by_cases hh : h = r.hash
      · obtain ⟨found, hf, hmem⟩ := (inTf_remove acc.tf r.hash hi.keys p h s hin').2 hh
        right
        refine ⟨r.path, _, hins.1, ?_, hh.symm, ?_⟩
        · simp only [hf, Option.getD_some, List.mem_append, List.mem_map, List.mem_singleton]
          exact Or.inl ⟨(p, s), hmem, rfl⟩
        · simp only [hf, Option.getD_some, sizesOk, List.all_eq_true, decide_eq_true_eq] at hsz
          exact (hsz (p, s) hmem).symm
      · left; exact (inTf_remove acc.tf r.hash hi.keys p h s hin').1 hh
    · right; exact coveredBy_insert_new _ _ _ hnew _ _ _ hcov

theorem ownFold_inv (tf0 : ToFind H) :
    ∀ (own done : List (MRec H)) (acc : PlanAcc H), OwnInv tf0 done acc →
      OwnInv tf0 (done ++ own) (own.foldl ownStep acc) := by
  intro own
  induction own with
  | nil => intro done acc h; simpa using h
  | cons r rest ih =>
    intro done acc h
    have := ih (done ++ [r]) (ownStep acc r) (ownStep_inv tf0 done acc r h)
    simpa [List.append_assoc] using this

theorem pushFold_inv :
    ∀ (ext : List (MRec H)) (tf : ToFind H), (tf.map (·.1)).Nodup →
      ((ext.foldl (fun tf r => toFindPush tf r.hash r.path r.size) tf).map (·.1)).Nodup ∧
      (∀ p h s, InTf tf p h s → InTf (ext.foldl (fun tf r => toFindPush tf r.hash r.path r.size) tf) p h s) ∧
      (∀ e ∈ ext, InTf (ext.foldl (fun tf r => toFindPush tf r.hash r.path r.size) tf) e.path e.hash e.size) := by
  intro ext
  induction ext with
  | nil => intro tf hn; exact ⟨hn, fun _ _ _ h => h, by intro e he; cases he⟩
  | cons r rest ih =>
    intro tf hn
    simp only [List.foldl_cons]
    obtain ⟨i1, i2, i3⟩ := ih (toFindPush tf r.hash r.path r.size) (tfKeys_push tf _ _ _ hn)
    obtain ⟨p1, p2⟩ := inTf_push tf r.hash r.path r.size
    refine ⟨i1, fun p h s hin => i2 p h s (p2 p h s hin), ?_⟩
    intro e he
    simp only [List.mem_cons] at he
    rcases he with rfl | he
    · exact i2 _ _ _ p1
    · exact i3 e he

/-- **The target step covers its manifest.** If the target's own planning step raised no problem, every
own record (unique or empty) is the source of a planned file with its hash and size, and every other
record is either in the fan-out of such a file — with the same hash **and** size — or still looked for. -/
theorem planTarget_covers (recs : List (MRec H)) (hok : (planTarget recs).ok = true) :
    ((planTarget recs).tf.map (·.1)).Nodup ∧
    ∀ r ∈ recs,
      (isOwn r = true → CoveredBy (planTarget recs).files r.path r.hash r.size) ∧
      (isOwn r = false → InTf (planTarget recs).tf r.path r.hash r.size ∨
        CoveredBy (planTarget recs).files r.path r.hash r.size) := by
  unfold planTarget at hok ⊢
  simp only [] at hok ⊢
  obtain ⟨t1, _, t3⟩ := pushFold_inv (recs.filter (fun r => !isOwn r)) ([] : ToFind H) (by simp)
  generalize htf : (recs.filter (fun r => !isOwn r)).foldl (fun tf r => toFindPush tf r.hash r.path r.size) [] = tf0 at *
  have h0 : OwnInv tf0 [] ({ tf := tf0 } : PlanAcc H) :=
    ⟨t1, fun _ => ⟨(by intro r hr; cases hr), fun p h s hin => Or.inl hin⟩⟩
  have hinv := ownFold_inv tf0 (recs.filter isOwn) [] _ h0
  simp only [List.nil_append] at hinv
  obtain ⟨c1, c2⟩ := hinv.cover hok
  refine ⟨hinv.keys, ?_⟩
  intro r hr
  constructor
  · intro ho; exact c1 r (List.mem_filter.mpr ⟨hr, ho⟩)
  · intro ho
    exact c2 _ _ _ (t3 r (List.mem_filter.mpr ⟨hr, by simp [ho]⟩))

end Vsb.Restore

namespace Vsb.Restore
variable {H β : Type} [DecidableEq H]

/-- Paths of the data-carrying (unique) records of a manifest are pairwise distinct. -/
def UniquePathsDistinct (recs : List (MRec H)) : Prop := ((recs.filter (·.unique)).map (·.path)).Nodup

/-- Invariant of `earlierLoop` within one earlier backup. -/
structure EInv (tfS : ToFind H) (seenPaths : List String) (acc : PlanAcc H) : Prop where
  keys : (acc.tf.map (·.1)).Nodup
  fileKeys : ∀ k, acc.files.any (·.1 = k) = true → k ∈ seenPaths
  cover : acc.ok = true → ∀ p h s, InTf tfS p h s → InTf acc.tf p h s ∨ CoveredBy acc.files p h s

theorem mapInsert_keys {V : Type} (m : List (String × V)) (k : String) (v : V) (k' : String)
    (h : (mapInsert m k v).any (·.1 = k') = true) : m.any (·.1 = k') = true ∨ k' = k := by
  unfold mapInsert at h
  split at h
  · left
    simp only [List.any_eq_true, List.mem_map] at h ⊢
    obtain ⟨e, ⟨e0, he0, rfl⟩, hk⟩ := h
    by_cases hc : e0.1 = k
    · simp only [hc, if_true] at hk
      exact ⟨e0, he0, by simpa [hc] using hk⟩
    · simp only [hc, if_false] at hk
      exact ⟨e0, he0, hk⟩
  · simp only [List.any_append, Bool.or_eq_true, List.any_cons, List.any_nil, Bool.or_false, decide_eq_true_eq] at h
    rcases h with h | h
    · exact Or.inl h
    · exact Or.inr h.symm

theorem earlierLoop_inv (tfS : ToFind H) :
    ∀ (recs : List (MRec H)) (seenPaths : List String) (acc : PlanAcc H),
      EInv tfS seenPaths acc →
      (((recs.filter (·.unique)).map (·.path)).Nodup ∧ ∀ q ∈ (recs.filter (·.unique)).map (·.path), q ∉ seenPaths) →
      ∃ sp, EInv tfS sp (earlierLoop recs acc) := by
  intro recs
  induction recs with
  | nil => intro sp acc h _; exact ⟨sp, h⟩
  | cons r rest ih =>
    intro sp acc h hnd
    simp only [earlierLoop]
    split
    · exact ⟨sp, h⟩
    · by_cases hu : r.unique = true
      · simp only [hu, Bool.not_true, Bool.false_eq_true, if_false]
        have hnd' : ((rest.filter (·.unique)).map (·.path)).Nodup ∧ r.path ∉ (rest.filter (·.unique)).map (·.path) ∧
            (∀ q ∈ (rest.filter (·.unique)).map (·.path), q ∉ sp) ∧ r.path ∉ sp := by
          obtain ⟨n1, n2⟩ := hnd
          simp only [List.filter_cons, hu, if_true, List.map_cons, List.nodup_cons] at n1 n2
          exact ⟨n1.2, n1.1, fun q hq => n2 q (List.mem_cons_of_mem _ hq), n2 r.path (by simp)⟩
        cases hf : (toFindRemove acc.tf r.hash).1 with
        | none =>
          simp only []
          exact ih sp acc h ⟨hnd'.1, hnd'.2.2.1⟩
        | some found =>
          simp only []
          have hnew : acc.files.any (·.1 = r.path) = false := by
            cases hc : acc.files.any (·.1 = r.path) with
            | false => rfl
            | true => exact absurd (h.fileKeys _ hc) hnd'.2.2.2
          have hins := mapGet_insert_new acc.files r.path (⟨r.hash, r.size, found.map (·.1)⟩ : RFile H) hnew
          apply ih (r.path :: sp)
          · refine ⟨tfKeys_remove acc.tf r.hash h.keys, ?_, ?_⟩
            · intro k hk
              rcases mapInsert_keys _ _ _ _ hk with hk | rfl
              · exact List.mem_cons_of_mem _ (h.fileKeys k hk)
              · simp
            · intro hok p hh s hin
              simp only [Bool.and_eq_true] at hok
              rcases h.cover hok.1 p hh s hin with hin' | hcov
              · by_cases heq : hh = r.hash
                · obtain ⟨found', hf', hmem⟩ := (inTf_remove acc.tf r.hash h.keys p hh s hin').2 heq
                  rw [hf] at hf'; cases hf'
                  right
                  refine ⟨r.path, _, hins.1, List.mem_map.mpr ⟨(p, s), hmem, rfl⟩, heq.symm, ?_⟩
                  have := hok.2
                  simp only [sizesOk, List.all_eq_true, decide_eq_true_eq] at this
                  exact (this (p, s) hmem).symm
                · left; exact (inTf_remove acc.tf r.hash h.keys p hh s hin').1 heq
              · right; exact coveredBy_insert_new _ _ _ hnew _ _ _ hcov
          · refine ⟨hnd'.1, ?_⟩
            intro q hq
            simp only [List.mem_cons, not_or]
            exact ⟨fun he => hnd'.2.1 (he ▸ hq), hnd'.2.2.1 q hq⟩
      · have hu' : r.unique = false := by simpa using hu
        simp only [hu', Bool.not_false, if_true]
        apply ih sp acc h
        simpa [List.filter_cons, hu'] using hnd

/-- Covered by some step of a step list. -/
def CoveredSteps (steps : List (Step H)) (path : String) (h : H) (size : Nat) : Prop :=
  ∃ s ∈ steps, CoveredBy s.files path h size

theorem coveredBy_nonempty (files : List (String × RFile H)) (p : String) (h : H) (s : Nat) (hc : CoveredBy files p h s) :
    files.isEmpty = false := by
  obtain ⟨key, info, h1, _⟩ := hc
  have := mapGet_some_any files key info h1
  cases files with
  | nil => simp at this
  | cons _ _ => rfl

/-- The walk over earlier backups: whatever was looked for at the start is, at the end, either still
looked for or covered by a step. -/
theorem earlierBackups_inv (group : List (Backup H β))
    (hdist : ∀ b ∈ group, ∀ recs, b.manifest = some recs → UniquePathsDistinct recs) :
    ∀ (idx : List Nat) (steps : List (Step H)) (ext : List String) (tf : ToFind H) (ok : Bool)
      (steps' : List (Step H)) (ext' : List String) (tf' : ToFind H) (ok' : Bool),
      earlierBackups group idx steps ext tf ok = some (steps', ext', tf', ok') →
      (tf.map (·.1)).Nodup →
      (ok' = true → ok = true ∧ (∀ p h s, CoveredSteps steps p h s → CoveredSteps steps' p h s) ∧
        ∀ p h s, InTf tf p h s → InTf tf' p h s ∨ CoveredSteps steps' p h s) := by
  intro idx
  induction idx with
  | nil =>
    intro steps ext tf ok steps' ext' tf' ok' h _
    simp only [earlierBackups, Option.some.injEq, Prod.mk.injEq] at h
    obtain ⟨rfl, rfl, rfl, rfl⟩ := h
    intro hok; exact ⟨hok, fun _ _ _ hc => hc, fun p h s hin => Or.inl hin⟩
  | cons i rest ih =>
    intro steps ext tf ok steps' ext' tf' ok' h hn
    simp only [earlierBackups] at h
    split at h
    · simp only [Option.some.injEq, Prod.mk.injEq] at h
      obtain ⟨rfl, rfl, rfl, rfl⟩ := h
      intro hok; exact ⟨hok, fun _ _ _ hc => hc, fun p h s hin => Or.inl hin⟩
    · cases hb : group[i]? with
      | none =>
        simp only [hb, Option.some.injEq, Prod.mk.injEq] at h
        obtain ⟨rfl, rfl, rfl, rfl⟩ := h
        intro hok; exact ⟨hok, fun _ _ _ hc => hc, fun p h s hin => Or.inl hin⟩
      | some b =>
        simp only [hb] at h
        cases hm : b.manifest with
        | none => simp [hm] at h
        | some recs =>
          simp only [hm] at h
          have hbm : b ∈ group := List.mem_of_getElem? hb
          have hd := hdist b hbm recs hm
          obtain ⟨sp, einv⟩ := earlierLoop_inv tf recs [] ({ tf := tf } : PlanAcc H)
            ⟨hn, by intro k hk; simp at hk, fun _ p h s hin => Or.inl hin⟩
            ⟨hd, by intro q _; simp⟩
          have hrec := ih _ _ _ _ _ _ _ _ h einv.keys
          intro hok'
          obtain ⟨r1, r2, r3⟩ := hrec hok'
          simp only [Bool.and_eq_true] at r1
          refine ⟨r1.1, ?_, ?_⟩
          · intro p hh s hc
            apply r2
            obtain ⟨st, hst, hcs⟩ := hc
            refine ⟨st, ?_, hcs⟩
            split
            · exact hst
            · exact List.mem_append_left _ hst
          · intro p hh s hin
            rcases einv.cover r1.2 p hh s hin with hin' | hcov
            · exact r3 p hh s hin'
            · right
              apply r2
              have hne := coveredBy_nonempty _ _ _ _ hcov
              refine ⟨⟨i, (planEarlier recs tf).files⟩, ?_, hcov⟩
              simp only [planEarlier] at hne ⊢
              simp [hne]

/-- **plan_complete.** If planning reports no problem, every record of the target manifest is covered
by a step of the plan: it is in the fan-out of a planned file with exactly its hash and its size. -/
theorem plan_covers (group : List (Backup H β)) (target : Nat) (p : Plan H) (tb : Backup H β) (recs : List (MRec H))
    (hdist : ∀ b ∈ group, ∀ recs, b.manifest = some recs → UniquePathsDistinct recs)
    (htb : group[target]? = some tb) (hrecs : tb.manifest = some recs)
    (h : plan group target = .ok p true) :
    ∀ r ∈ recs, CoveredSteps p.steps r.path r.hash r.size := by
  unfold plan at h
  simp only [htb, hrecs] at h
  cases he : earlierBackups group ((List.range target).reverse) [⟨target, (planTarget recs).files⟩]
      (planTarget recs).ext (planTarget recs).tf (planTarget recs).ok with
  | none => simp [he] at h
  | some res =>
    obtain ⟨steps, ext, tf, ok⟩ := res
    simp only [he, PlanRes.ok.injEq] at h
    obtain ⟨rfl, hok⟩ := h
    simp only [Bool.and_eq_true, List.isEmpty_iff] at hok
    have hkeys0 : ((planTarget recs).tf.map (·.1)).Nodup := by
      -- keys of the to-find map are unique whatever `ok` is
      unfold planTarget
      simp only []
      obtain ⟨t1, _, _⟩ := pushFold_inv (recs.filter (fun r => !isOwn r)) ([] : ToFind H) (by simp)
      exact (ownFold_inv _ (recs.filter isOwn) [] _ ⟨t1, fun _ => ⟨(by intro r hr; cases hr), fun p h s hin => Or.inl hin⟩⟩).keys
    obtain ⟨e1, e2, e3⟩ := earlierBackups_inv group hdist _ _ _ _ _ _ _ _ _ he hkeys0 hok.1
    obtain ⟨_, c⟩ := planTarget_covers recs e1
    have hnotf : ∀ p' h' s', ¬ InTf tf p' h' s' := by
      rintro p' h' s' ⟨l, hl, hp⟩
      have : p' ∈ tf.flatMap (fun e => e.2.map (·.1)) :=
        List.mem_flatMap.mpr ⟨(h', l), hl, List.mem_map.mpr ⟨(p', s'), hp, rfl⟩⟩
      rw [hok.2] at this; cases this
    intro r hr
    obtain ⟨c1, c2⟩ := c r hr
    have lift : CoveredBy (planTarget recs).files r.path r.hash r.size → CoveredSteps steps r.path r.hash r.size :=
      fun hc => e2 _ _ _ ⟨⟨target, (planTarget recs).files⟩, by simp, hc⟩
    cases ho : isOwn r with
    | true => exact lift (c1 ho)
    | false =>
      rcases c2 ho with hin | hc
      · rcases e3 _ _ _ hin with hin' | hcs
        · exact absurd hin' (hnotf _ _ _)
        · exact hcs
      · exact lift hc

end Vsb.Restore
