import VsbModel.Model.Split
set_option linter.unusedSimpArgs false
set_option linter.unusedVariables false

/-! Lemmas about `StreamReader` (http_client/body.rs): reading one request body to its end, with any
sequence of read-buffer sizes, returns exactly the bytes of its chunks, in order. -/
namespace Vsb.Split
variable {α : Type}

def okData : ChunkMsg α → List α
  | .ok d => d
  | .err _ => []

/-- Bytes not yet handed out. -/
def Reader.remaining (r : Reader α) : List α := (r.current.getD []) ++ (r.pending.map okData).flatten

/-- Only non-empty data chunks (what the splitter sends), and a non-empty current chunk. -/
def Reader.Clean (r : Reader α) : Prop :=
  (∀ m ∈ r.pending, ∃ d, m = ChunkMsg.ok d ∧ d ≠ []) ∧ (∀ c, r.current = some c → c ≠ [])

theorem read_eof (r : Reader α) (hc : r.Clean) (n : Nat) (h : r.remaining = []) : r.read n = (r, .eof) := by
  obtain ⟨hp, hcur⟩ := hc
  cases hcu : r.current with
  | some c =>
    exfalso
    have := hcur c hcu
    simp only [Reader.remaining, hcu, Option.getD_some, List.append_eq_nil_iff] at h
    exact this h.1
  | none =>
    cases hpe : r.pending with
    | nil => simp [Reader.read, Reader.getCurrent, hcu, hpe]
    | cons m ms =>
      exfalso
      obtain ⟨d, hd, hne⟩ := hp m (by rw [hpe]; simp)
      simp only [Reader.remaining, hcu, hpe, hd, List.map_cons, okData, List.flatten_cons, Option.getD_none, List.nil_append,
        List.append_eq_nil_iff] at h
      exact hne h.1

/-- One read on a body with bytes left: some bytes come out, they are the next ones, nothing is lost. -/
theorem read_data (r : Reader α) (hc : r.Clean) (n : Nat) (hn : 0 < n) (h : r.remaining ≠ []) :
    ∃ r' d, r.read n = (r', .data d) ∧ d ≠ [] ∧ r.remaining = d ++ r'.remaining ∧ r'.Clean := by
  obtain ⟨hp, hcur⟩ := hc
  -- the chunk the read works on, and the reader state after `get_current_chunk`
  have key : ∀ (r0 : Reader α) (c : List α), c ≠ [] → (∀ m ∈ r0.pending, ∃ d, m = ChunkMsg.ok d ∧ d ≠ []) →
      r0.current = some c →
      ∃ r' d, r0.read n = (r', .data d) ∧ d ≠ [] ∧ r0.remaining = d ++ r'.remaining ∧ r'.Clean := by
    intro r0 c hcne hp0 hcu
    have hlen : c.length ≠ 0 := by intro h0; exact hcne (List.eq_nil_of_length_eq_zero h0)
    refine ⟨{ r0 with current := if (c.drop (min n c.length)).isEmpty then none else some (c.drop (min n c.length)) },
      c.take (min n c.length), ?_, ?_, ?_, ?_⟩
    · simp [Reader.read, Reader.getCurrent, hcu, hlen]
    · intro ht
      have : (c.take (min n c.length)).length = min n c.length := by simp
      rw [ht] at this
      simp only [List.length_nil] at this
      have hpos : 0 < c.length := Nat.pos_of_ne_zero hlen
      omega
    · simp only [Reader.remaining, hcu, Option.getD_some]
      by_cases he : (c.drop (min n c.length)).isEmpty
      · simp only [he, if_true, Option.getD_none, List.nil_append]
        have hdrop : c.drop (min n c.length) = [] := by simpa using he
        have htake : c.take (min n c.length) = c := by
          have := List.take_append_drop (min n c.length) c
          rw [hdrop] at this
          simpa using this
        rw [htake]
      · simp only [he, Bool.false_eq_true, if_false, Option.getD_some]
        rw [← List.append_assoc, List.take_append_drop]
    · refine ⟨hp0, ?_⟩
      intro c' hc'
      simp only at hc'
      by_cases he : (c.drop (min n c.length)).isEmpty
      · simp [he] at hc'
      · simp only [he, Bool.false_eq_true, if_false, Option.some.injEq] at hc'
        subst hc'
        intro hnil
        apply he
        simp [hnil]
  cases hcu : r.current with
  | some c => exact key r c (hcur c hcu) hp hcu
  | none =>
    cases hpe : r.pending with
    | nil =>
      exfalso; apply h
      simp [Reader.remaining, hcu, hpe]
    | cons m ms =>
      obtain ⟨d0, hd0, hne0⟩ := hp m (by rw [hpe]; simp)
      subst hd0
      -- after fetching the chunk
      let r0 : Reader α := { pending := ms, current := some d0 }
      have hp0 : ∀ m ∈ r0.pending, ∃ d, m = ChunkMsg.ok d ∧ d ≠ [] := by
        intro m hm; exact hp m (by rw [hpe]; exact List.mem_cons_of_mem _ hm)
      obtain ⟨r', d, h1, h2, h3, h4⟩ := key r0 d0 hne0 hp0 rfl
      refine ⟨r', d, ?_, h2, ?_, h4⟩
      · have : r.read n = r0.read n := by
          simp [Reader.read, Reader.getCurrent, hcu, hpe, r0]
        rw [this, h1]
      · rw [← h3]
        simp [Reader.remaining, hcu, hpe, okData, r0]

/-- Read a body to its end: the `k`-th call uses a buffer of `bufs k` bytes. `none` = an error, a panic,
or the fuel ran out. -/
def drain (bufs : Nat → Nat) : Nat → Nat → Reader α → List α → Option (List α)
  | 0, _, _, _ => none
  | fuel+1, k, r, acc =>
    match r.read (bufs k) with
    | (_, .eof) => some acc
    | (r', .data d) => drain bufs fuel (k+1) r' (acc ++ d)
    | (_, .error _) => none
    | (_, .panic) => none

theorem drain_all (bufs : Nat → Nat) (hb : ∀ k, 0 < bufs k) (fuel k : Nat) (r : Reader α) (acc : List α)
    (hc : r.Clean) (hf : r.remaining.length < fuel) :
    drain bufs fuel k r acc = some (acc ++ r.remaining) := by
  induction fuel generalizing k r acc with
  | zero => omega
  | succ fuel ih =>
    unfold drain
    by_cases hr : r.remaining = []
    · rw [read_eof r hc _ hr, hr]; simp
    · obtain ⟨r', d, h1, h2, h3, h4⟩ := read_data r hc (bufs k) (hb k) hr
      rw [h1]
      simp only
      have hlen : r'.remaining.length < fuel := by
        have : r.remaining.length = d.length + r'.remaining.length := by rw [h3]; simp
        have hd : 0 < d.length := List.length_pos_iff.mpr h2
        omega
      rw [ih (k+1) r' (acc ++ d) h4 hlen, h3, List.append_assoc]

end Vsb.Split

namespace Vsb.Split
variable {α : Type}

/-! ### chunk events of the splitter are never empty -/

def ChunksNonempty (evs : List (Ev α)) : Prop := ∀ d, Ev.chunk d ∈ evs → d ≠ []

theorem chunksNonempty_append {a b : List (Ev α)} (ha : ChunksNonempty a) (hb : ChunksNonempty b) : ChunksNonempty (a ++ b) := by
  intro d hd
  rcases List.mem_append.mp hd with h | h
  · exact ha d h
  · exact hb d h

theorem cn_single_chunk {d : List α} (hd : d ≠ []) : ChunksNonempty [Ev.chunk d] := by
  intro x hx; simp only [List.mem_singleton, Ev.chunk.injEq] at hx; subst hx; exact hd
theorem cn_close : ChunksNonempty ([Ev.close] : List (Ev α)) := by intro x hx; simp at hx
theorem cn_stream (o : Nat) : ChunksNonempty ([Ev.stream o] : List (Ev α)) := by intro x hx; simp at hx
theorem cn_chunk_close {d : List α} (hd : d ≠ []) : ChunksNonempty [Ev.chunk d, Ev.close] := by
  intro x hx
  simp only [List.mem_cons, Ev.chunk.injEq, List.mem_singleton, reduceCtorEq, or_false, List.not_mem_nil] at hx
  subst hx; exact hd

theorem take_ne_nil {data : List α} {k : Nat} (hk : 0 < k) (hd : data ≠ []) : data.take k ≠ [] := by
  intro h
  have : (data.take k).length = 0 := by rw [h]; rfl
  rw [List.length_take] at this
  have : 0 < data.length := List.length_pos_iff.mpr hd
  omega

theorem feedAux_chunks (max : Option Nat) (fuel : Nat) (s : St) (b : Option Nat) (data : List α) (acc : List (Ev α))
    (h : ChunksNonempty acc) : ChunksNonempty (feedAux max fuel s b data acc).evs := by
  induction fuel generalizing s b data acc with
  | zero => simpa [feedAux] using h
  | succ fuel ih =>
    unfold feedAux
    by_cases hz : data.length = 0
    · simp only [hz, if_true]; exact h
    · simp only [hz, if_false]
      have hdata : data ≠ [] := by intro hn; apply hz; simp [hn]
      -- once a stream is open
      have step : ∀ (s' : St) (b' : Option Nat) (acc' : List (Ev α)), ChunksNonempty acc' →
          ∀ avail : Nat, ChunksNonempty
            (if avail ≥ data.length then
                match trySend b' with
                | none => (⟨s', acc', b', true⟩ : FeedOut α)
                | some b'' => ⟨{ s' with streamSize := s'.streamSize + data.length, offset := s'.offset + data.length },
                    acc' ++ [Ev.chunk data], b'', false⟩
              else if avail > 0 then
                match trySend b' with
                | none => ⟨{ s' with isOpen := false }, acc', b', true⟩
                | some b'' => feedAux max fuel
                    { isOpen := false, streamSize := s'.streamSize + avail, offset := s'.offset + avail } b''
                    (data.drop avail) (acc' ++ [Ev.chunk (data.take avail), Ev.close])
              else feedAux max fuel { s' with isOpen := false } b' data (acc' ++ [Ev.close])).evs := by
        intro s' b' acc' hacc avail
        by_cases hfit : avail ≥ data.length
        · rw [if_pos hfit]
          cases trySend b' with
          | none => exact hacc
          | some b'' => exact chunksNonempty_append hacc (cn_single_chunk hdata)
        · rw [if_neg hfit]
          by_cases hpos : avail > 0
          · rw [if_pos hpos]
            cases trySend b' with
            | none => exact hacc
            | some b'' => exact ih _ _ _ _ (chunksNonempty_append hacc (cn_chunk_close (take_ne_nil hpos hdata)))
          · rw [if_neg hpos]
            exact ih _ _ _ _ (chunksNonempty_append hacc cn_close)
      cases ho : s.isOpen with
      | true =>
        simp only [if_true]
        exact step s b acc h _
      | false =>
        simp only [Bool.false_eq_true, if_false]
        cases hts : trySend b with
        | none => simpa using h
        | some b' =>
          simp only
          exact step _ _ _ (chunksNonempty_append h (cn_stream _)) _

theorem run_chunks (max : Option Nat) (msgs : List (Msg α)) (s : St) (b : Option Nat) (acc : List (Ev α))
    (h : ChunksNonempty acc) : ChunksNonempty (run max s b msgs acc).1 := by
  induction msgs generalizing s b acc with
  | nil =>
    simp only [run]
    split
    · apply chunksNonempty_append h; intro d hd; simp at hd
    · exact h
  | cons m rest ih =>
    cases m with
    | payload d =>
      simp only [run]
      have hf := feedAux_chunks max (2 * d.length + 2) s b d acc h
      split
      · exact hf
      · exact ih _ _ _ hf
    | eof c =>
      simp only [run]
      have hacc : ChunksNonempty (if s.isOpen then acc ++ [Ev.close] else acc) := by
        split
        · apply chunksNonempty_append h; intro d hd; simp at hd
        · exact h
      split
      · exact hacc
      · apply chunksNonempty_append hacc; intro d hd; simp at hd
    | err e =>
      simp only [run]
      have hacc : ChunksNonempty (if s.isOpen then acc ++ [Ev.close] else acc) := by
        split
        · apply chunksNonempty_append h; intro d hd; simp at hd
        · exact h
      split
      · exact hacc
      · apply chunksNonempty_append hacc; intro d hd; simp at hd

theorem splitter_chunks_nonempty (max budget : Option Nat) (msgs : List (Msg α)) :
    ChunksNonempty (splitter max budget msgs).1 :=
  run_chunks max msgs {} budget [] (by intro d hd; simp at hd)

end Vsb.Split

namespace Vsb.Split
variable {α : Type}

/-! ### the chunk messages of each request body -/

structure View2 (α : Type) where
  bodies : List (List (List α)) := []   -- newest first; the chunk messages of each body, in order
  isOpen : Bool := false

def View2.apply (v : View2 α) : Ev α → View2 α
  | .stream _ => { bodies := [] :: v.bodies, isOpen := true }
  | .chunk d =>
      match v.isOpen, v.bodies with
      | true, b :: bs => { v with bodies := (b ++ [d]) :: bs }
      | _, _ => v
  | .close => { v with isOpen := false }
  | _ => v

/-- The chunk messages the reader of each request body receives, oldest body first. -/
def chunkLists (evs : List (Ev α)) : List (List (List α)) := (evs.foldl View2.apply {}).bodies.reverse

def Rel (v : View α) (w : View2 α) : Prop :=
  v.bad = false → (v.bodies.map (·.bytes) = w.bodies.map List.flatten ∧ v.isOpen = w.isOpen)

theorem apply_bad_mono (v : View α) (e : Ev α) (h : (v.apply e).bad = false) : v.bad = false := by
  cases e with
  | stream o => simp only [View.apply] at h; split at h <;> simp_all
  | chunk d =>
    simp only [View.apply] at h
    split at h <;> simp_all
  | close => simp only [View.apply] at h; split at h <;> simp_all
  | eof o c => simp only [View.apply] at h; split at h <;> simp_all
  | err m => simp only [View.apply] at h; split at h <;> simp_all

theorem rel_step (v : View α) (w : View2 α) (e : Ev α) (h : Rel v w) : Rel (v.apply e) (w.apply e) := by
  intro hb
  have hv := apply_bad_mono v e hb
  obtain ⟨h1, h2⟩ := h hv
  cases e with
  | stream o =>
    simp only [View.apply] at hb ⊢
    split at hb
    · simp at hb
    · rename_i hc
      rw [if_neg hc]
      simp only [View2.apply, List.map_cons, List.flatten_nil, h1]
      exact ⟨trivial, trivial⟩
  | chunk d =>
    simp only [View.apply, View2.apply] at hb ⊢
    cases ho : v.isOpen with
    | false => rw [ho] at hb; simp at hb
    | true =>
      rw [ho] at hb h2
      cases hbs : v.bodies with
      | nil => rw [hbs] at hb; simp at hb
      | cons b bs =>
        rw [hbs] at h1
        cases hws : w.bodies with
        | nil => rw [hws] at h1; simp at h1
        | cons c cs =>
          rw [hws] at h1
          simp only [List.map_cons, List.cons.injEq] at h1
          simp only [← h2, List.map_cons, List.flatten_append, List.flatten_cons, List.flatten_nil, List.append_nil, h1.1, h1.2]
          exact ⟨trivial, trivial⟩
  | close =>
    simp only [View.apply] at hb ⊢
    split at hb
    · rename_i hc
      rw [if_pos hc]
      simp only [View2.apply, h1]
      exact ⟨trivial, trivial⟩
    · simp at hb
  | eof o c =>
    simp only [View.apply] at hb ⊢
    split at hb
    · simp at hb
    · rename_i hc
      rw [if_neg hc]
      simp only [View2.apply]
      exact ⟨h1, h2⟩
  | err m =>
    simp only [View.apply] at hb ⊢
    split at hb
    · simp at hb
    · rename_i hc
      rw [if_neg hc]
      simp only [View2.apply]
      exact ⟨h1, h2⟩

theorem rel_fold (evs : List (Ev α)) (v : View α) (w : View2 α) (h : Rel v w) :
    Rel (evs.foldl View.apply v) (evs.foldl View2.apply w) := by
  induction evs generalizing v w with
  | nil => exact h
  | cons e es ih => exact ih _ _ (rel_step v w e h)

/-- If the consumer saw no protocol violation, the bytes of each body are the concatenation of the chunk
messages its reader receives. -/
theorem chunkLists_flatten (evs : List (Ev α)) (hb : (view evs).bad = false) :
    (chunkLists evs).map List.flatten = (bodiesOf evs).map (·.bytes) := by
  have := rel_fold evs {} {} (by intro _; exact ⟨rfl, rfl⟩) hb
  unfold chunkLists bodiesOf view
  rw [List.map_reverse, List.map_reverse, this.1]

theorem view2_chunks_mem (evs : List (Ev α)) (w : View2 α) (d : List α) (b : List (List α))
    (hb : b ∈ (evs.foldl View2.apply w).bodies) (hd : d ∈ b) :
    (∃ b0 ∈ w.bodies, d ∈ b0) ∨ Ev.chunk d ∈ evs := by
  induction evs generalizing w with
  | nil => exact Or.inl ⟨b, hb, hd⟩
  | cons e es ih =>
    rcases ih (w.apply e) hb with ⟨b0, hb0, hd0⟩ | h
    · cases e with
      | stream o =>
        simp only [View2.apply, List.mem_cons] at hb0
        rcases hb0 with rfl | hb0
        · simp at hd0
        · exact Or.inl ⟨b0, hb0, hd0⟩
      | chunk d' =>
        simp only [View2.apply] at hb0
        cases ho : w.isOpen with
        | false => rw [ho] at hb0; exact Or.inl ⟨b0, hb0, hd0⟩
        | true =>
          cases hbs : w.bodies with
          | nil => rw [ho, hbs] at hb0; rw [hbs] at hb0; simp at hb0
          | cons b1 bs =>
            rw [ho, hbs] at hb0
            simp only [List.mem_cons] at hb0
            rcases hb0 with rfl | hb0
            · rcases List.mem_append.mp hd0 with h1 | h1
              · exact Or.inl ⟨b1, by simp, h1⟩
              · simp only [List.mem_singleton] at h1
                subst h1
                exact Or.inr (by simp)
            · exact Or.inl ⟨b0, List.mem_cons_of_mem _ hb0, hd0⟩
      | close => exact Or.inl ⟨b0, hb0, hd0⟩
      | eof o c => exact Or.inl ⟨b0, hb0, hd0⟩
      | err m => exact Or.inl ⟨b0, hb0, hd0⟩
    · exact Or.inr (List.mem_cons_of_mem _ h)

/-- Every chunk message of every body of the splitter's output is non-empty. -/
theorem chunkLists_nonempty (max budget : Option Nat) (msgs : List (Msg α)) :
    ∀ b ∈ chunkLists (splitter max budget msgs).1, ∀ d ∈ b, d ≠ [] := by
  intro b hb d hd
  unfold chunkLists at hb
  rw [List.mem_reverse] at hb
  rcases view2_chunks_mem _ {} d b hb hd with ⟨b0, hb0, _⟩ | h
  · simp at hb0
  · exact splitter_chunks_nonempty max budget msgs d h

end Vsb.Split
