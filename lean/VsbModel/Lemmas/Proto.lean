import VsbModel.Model.Proto
set_option linter.unusedSimpArgs false
set_option linter.unusedVariables false
set_option linter.unusedSectionVars false

/-! Helper lemmas for C05: how the requests of the upload protocols act on the final-named objects. -/
namespace Vsb.Proto
variable {β H : Type} [DecidableEq H]

/-! ### namespace operations -/

theorem mem_nsPut_ne (ns : List (Name × List β)) (t : Name) (d : List β) (n : Name) (x : List β) (hne : n ≠ t) :
    (n, x) ∈ nsPut ns t d ↔ (n, x) ∈ ns := by
  induction ns with
  | nil => simp [nsPut, hne]
  | cons e es ih =>
    unfold nsPut
    by_cases he : e.1 = t
    · rw [if_pos he]
      simp only [List.mem_cons, Prod.mk.injEq]
      constructor
      · rintro (⟨h1, _⟩ | h); exact absurd h1 hne; exact Or.inr h
      · rintro (h | h)
        · exfalso; apply hne; rw [← he, ← h]
        · exact Or.inr h
    · rw [if_neg he]
      simp only [List.mem_cons, ih]

theorem mem_nsDel_ne (ns : List (Name × List β)) (t : Name) (n : Name) (x : List β) (hne : n ≠ t) :
    (n, x) ∈ nsDel ns t ↔ (n, x) ∈ ns := by
  simp [nsDel, hne]

theorem nsHas_iff (ns : List (Name × List β)) (n : Name) : nsHas ns n = true ↔ ∃ d, nsGet ns n = some d := by
  induction ns with
  | nil => simp [nsHas, nsGet]
  | cons e es ih =>
    by_cases he : e.1 = n
    · simp [nsHas, nsGet, List.find?, he]
    · have ih' := ih
      simp only [nsHas, nsGet] at ih' ⊢
      simp [List.find?, he, ih']

/-- Renaming the first object called `s`: for any name other than `s`, the objects of that name
afterwards are those before plus — under the new name — the renamed content. -/
theorem mem_nsRename (ns : List (Name × List β)) (s dst : Name) (n : Name) (x : List β) (hne : n ≠ s) :
    (n, x) ∈ nsRename ns s dst ↔ ((n, x) ∈ ns ∨ (n = dst ∧ nsGet ns s = some x)) := by
  induction ns with
  | nil => simp [nsRename, nsGet]
  | cons e es ih =>
    unfold nsRename
    by_cases he : e.1 = s
    · rw [if_pos he]
      have hg : nsGet (e :: es) s = some e.2 := by simp [nsGet, List.find?, he]
      rw [hg]
      simp only [List.mem_cons, Prod.mk.injEq, Option.some.injEq]
      constructor
      · rintro (⟨h1, h2⟩ | h)
        · exact Or.inr ⟨h1, h2.symm⟩
        · exact Or.inl (Or.inr h)
      · rintro ((h | h) | ⟨h1, h2⟩)
        · exfalso; apply hne; rw [← he, ← h]
        · exact Or.inr h
        · exact Or.inl ⟨h1, h2.symm⟩
    · rw [if_neg he]
      have hg : nsGet (e :: es) s = nsGet es s := by simp [nsGet, List.find?, he]
      rw [hg]
      simp only [List.mem_cons, ih]
      constructor
      · rintro (h | h | h)
        · exact Or.inl (Or.inl h)
        · exact Or.inl (Or.inr h)
        · exact Or.inr h
      · rintro ((h | h) | h)
        · exact Or.inl h
        · exact Or.inr (Or.inl h)
        · exact Or.inr (Or.inr h)

theorem temp_ne {n t : Name} (hn : isTemp n = false) (ht : isTemp t = true) : n ≠ t := by
  intro h; rw [h, ht] at hn; cases hn

/-! ### the invariant -/

/-- The final-named objects of the directory are those it held before the upload, plus — under the final
name — the content recorded in `renamed`, if any. -/
def After (c : Cfg β H) (ns0 : List (Name × List β)) (r : Run β) : Prop :=
  ∀ n d, isTemp n = false → ((n, d) ∈ r.srv.ns ↔ ((n, d) ∈ ns0 ∨ (n = c.final ∧ r.renamed = some d)))

/-- An effect that only touches dot-prefixed names (and the session). -/
def TempOnly (eff : Effect β) : Prop :=
  ∀ s cor s', eff s cor = some s' → ∀ n d, isTemp n = false → ((n, d) ∈ s'.ns ↔ (n, d) ∈ s.ns)

theorem tempOnly_noEffect : TempOnly (noEffect : Effect β) := by
  intro s cor s' h n d _
  simp only [noEffect, Option.some.injEq] at h
  subst h; exact Iff.rfl

theorem tempOnly_delTmp (c : Cfg β H) (ht : isTemp c.tmp = true) : TempOnly (delTmp c) := by
  intro s cor s' h n d hn
  unfold delTmp at h
  split at h
  · simp only [Option.some.injEq] at h
    subst h
    exact mem_nsDel_ne _ _ _ _ (temp_ne hn ht)
  · cases h

theorem tempOnly_put (c : Cfg β H) (ht : isTemp c.tmp = true) (f : Srv β → Bool → List β) :
    TempOnly (fun s cor => some { s with ns := nsPut s.ns c.tmp (f s cor) }) := by
  intro s cor s' h n d hn
  simp only [Option.some.injEq] at h
  subst h
  exact mem_nsPut_ne _ _ _ _ _ (temp_ne hn ht)

theorem tempOnly_session (f : Srv β → Bool → List β) :
    TempOnly (fun s cor => some { s with session := f s cor }) := by
  intro s cor s' h n d _
  simp only [Option.some.injEq] at h
  subst h; exact Iff.rfl

theorem req_renamed (r : Run β) (script : Nat → Resp) (cls : String) (eff : Effect β) :
    (r.req script cls eff).1.renamed = r.renamed := by
  unfold Run.req
  simp only
  split
  · split <;> rfl
  · rfl

theorem req_k (r : Run β) (script : Nat → Resp) (cls : String) (eff : Effect β) :
    (r.req script cls eff).1.k = r.k + 1 := by
  unfold Run.req
  simp only
  split
  · split <;> rfl
  · rfl

theorem req_log (r : Run β) (script : Nat → Resp) (cls : String) (eff : Effect β) :
    (r.req script cls eff).1.log = r.log ++ [cls] := by
  unfold Run.req
  simp only
  split
  · split <;> rfl
  · rfl

theorem req_after (c : Cfg β H) (ns0 : List (Name × List β)) (r : Run β) (script : Nat → Resp) (cls : String)
    (eff : Effect β) (he : TempOnly eff) (h : After c ns0 r) : After c ns0 (r.req script cls eff).1 := by
  intro n d hn
  rw [req_renamed]
  unfold Run.req
  simp only
  split
  · split
    · rename_i s hs
      simp only
      rw [he _ _ _ hs n d hn]
      exact h n d hn
    · exact h n d hn
  · exact h n d hn

theorem reads_after (c : Cfg β H) (ns0 : List (Name × List β)) (script : Nat → Resp) (cls : String) (n : Nat) (r : Run β)
    (h : After c ns0 r) : After c ns0 (reads script cls n r).1 := by
  induction n generalizing r with
  | zero => exact h
  | succ n ih =>
    unfold reads
    simp only
    split
    · exact ih _ (req_after c ns0 r script cls _ tempOnly_noEffect h)
    · exact req_after c ns0 r script cls _ tempOnly_noEffect h

theorem reads_renamed (script : Nat → Resp) (cls : String) (n : Nat) (r : Run β) :
    (reads script cls n r).1.renamed = r.renamed := by
  induction n generalizing r with
  | zero => rfl
  | succ n ih =>
    unfold reads
    simp only
    split
    · rw [ih, req_renamed]
    · rw [req_renamed]

theorem dbxAppends_after (c : Cfg β H) (ns0 : List (Name × List β)) (script : Nat → Resp) (bs : List (List β)) (r : Run β)
    (h : After c ns0 r) : After c ns0 (dbxAppends c script bs r).1 := by
  induction bs generalizing r with
  | nil => exact h
  | cons b bs ih =>
    unfold dbxAppends
    simp only
    split
    · exact ih _ (req_after c ns0 r script _ _ (tempOnly_session _) h)
    · exact req_after c ns0 r script _ _ (tempOnly_session _) h

theorem dbxAppends_renamed (c : Cfg β H) (script : Nat → Resp) (bs : List (List β)) (r : Run β) :
    (dbxAppends c script bs r).1.renamed = r.renamed := by
  induction bs generalizing r with
  | nil => rfl
  | cons b bs ih =>
    unfold dbxAppends
    simp only
    split
    · rw [ih, req_renamed]
    · rw [req_renamed]

theorem yaPuts_after (c : Cfg β H) (ht : isTemp c.tmp = true) (ns0 : List (Name × List β)) (script : Nat → Resp)
    (bs : List (List β)) (r : Run β) (h : After c ns0 r) : After c ns0 (yaPuts c script bs r).1 := by
  induction bs generalizing r with
  | nil => exact h
  | cons b bs ih =>
    unfold yaPuts
    simp only
    split
    · exact ih _ (req_after c ns0 r script _ _ (tempOnly_put c ht _) h)
    · exact req_after c ns0 r script _ _ (tempOnly_put c ht _) h

theorem yaPuts_renamed (c : Cfg β H) (script : Nat → Resp) (bs : List (List β)) (r : Run β) :
    (yaPuts c script bs r).1.renamed = r.renamed := by
  induction bs generalizing r with
  | nil => rfl
  | cons b bs ih =>
    unfold yaPuts
    simp only
    split
    · rw [ih, req_renamed]
    · rw [req_renamed]

theorem yaPoll_after (c : Cfg β H) (ns0 : List (Name × List β)) (script : Nat → Resp) (n : Nat) (r : Run β)
    (h : After c ns0 r) : After c ns0 (yaPoll script n r).1 := by
  induction n generalizing r with
  | zero => exact h
  | succ n ih =>
    unfold yaPoll
    simp only
    have h1 := req_after c ns0 r script "operation" _ tempOnly_noEffect h
    split
    · exact h1
    · split
      · exact ih _ h1
      · exact h1
      · exact h1

theorem yaPoll_renamed (script : Nat → Resp) (n : Nat) (r : Run β) :
    (yaPoll script n r).1.renamed = r.renamed := by
  induction n generalizing r with
  | zero => rfl
  | succ n ih =>
    unfold yaPoll
    simp only
    split
    · rw [req_renamed]
    · split
      · rw [ih, req_renamed]
      · rw [req_renamed]
      · rw [req_renamed]

theorem gPut_after (c : Cfg β H) (ht : isTemp c.tmp = true) (ns0 : List (Name × List β)) (script : Nat → Resp)
    (b : List β) (r : Run β) (h : After c ns0 r) : After c ns0 (gPut c script b r).1 := by
  unfold gPut
  simp only
  have h1 := reads_after c ns0 script "list" c.depth r h
  split
  · exact h1
  · have h2 := req_after c ns0 _ script "session-start" _ tempOnly_noEffect h1
    split
    · exact h2
    · exact req_after c ns0 _ script _ _ (tempOnly_put c ht _) h2

theorem gPut_renamed (c : Cfg β H) (script : Nat → Resp) (b : List β) (r : Run β) :
    (gPut c script b r).1.renamed = r.renamed := by
  unfold gPut
  simp only
  split
  · rw [reads_renamed]
  · split
    · rw [req_renamed, reads_renamed]
    · rw [req_renamed, req_renamed, reads_renamed]

theorem gPuts_after (c : Cfg β H) (ht : isTemp c.tmp = true) (ns0 : List (Name × List β)) (script : Nat → Resp)
    (bs : List (List β)) (r : Run β) (h : After c ns0 r) : After c ns0 (gPuts c script bs r).1 := by
  induction bs generalizing r with
  | nil => exact h
  | cons b bs ih =>
    unfold gPuts
    simp only
    split
    · exact ih _ (gPut_after c ht ns0 script b r h)
    · exact gPut_after c ht ns0 script b r h

theorem gPuts_renamed (c : Cfg β H) (script : Nat → Resp) (bs : List (List β)) (r : Run β) :
    (gPuts c script bs r).1.renamed = r.renamed := by
  induction bs generalizing r with
  | nil => rfl
  | cons b bs ih =>
    unfold gPuts
    simp only
    split
    · rw [ih, gPut_renamed]
    · rw [gPut_renamed]

theorem gDelete_after (c : Cfg β H) (ht : isTemp c.tmp = true) (ns0 : List (Name × List β)) (script : Nat → Resp)
    (r : Run β) (h : After c ns0 r) : After c ns0 (gDelete c script r) := by
  unfold gDelete
  simp only
  have h1 := reads_after c ns0 script "list" c.depth r h
  split
  · exact h1
  · split
    · exact h1
    · exact req_after c ns0 _ script _ _ (tempOnly_delTmp c ht) h1

theorem gDelete_renamed (c : Cfg β H) (script : Nat → Resp) (r : Run β) :
    (gDelete c script r).renamed = r.renamed := by
  unfold gDelete
  simp only
  split
  · rw [reads_renamed]
  · split
    · rw [reads_renamed]
    · rw [req_renamed, reads_renamed]

end Vsb.Proto

namespace Vsb.Proto
variable {β H : Type} [DecidableEq H]

/-- Everything about the final rename. -/
theorem renameStep_spec (c : Cfg β H) (ht : isTemp c.tmp = true) (ns0 : List (Name × List β))
    (script : Nat → Resp) (cls : String) (free : Bool) (r : Run β)
    (h : After c ns0 r) (hr : r.renamed = none) :
    After c ns0 (renameStep c script cls free r).1 ∧
    (∀ d, (renameStep c script cls free r).1.renamed = some d → d = (nsGet r.srv.ns c.tmp).getD []) ∧
    ((renameStep c script cls free r).2 = true →
      (renameStep c script cls free r).1.renamed.isSome = true ∧ (renameStep c script cls free r).1.log.getLast? = some cls) ∧
    ((renameStep c script cls free r).2 = false → ∀ d, (renameStep c script cls free r).1.renamed = some d → script r.k = .lost) ∧
    (renameStep c script cls free r).1.log = r.log ++ [cls] := by
  unfold renameStep Run.req
  simp only
  cases hp : (script r.k).performed with
  | false =>
    simp only [Bool.false_eq_true, if_false, Bool.false_and]
    refine ⟨?_, ?_, ?_, ?_, trivial⟩
    · intro n d hn
      simp only
      have := h n d hn
      rw [hr] at this
      simpa using this
    · intro d hd; cases hd
    · intro hc; cases hc
    · intro _ d hd; cases hd
  | true =>
    simp only [if_true, Bool.true_and]
    cases hcan : (nsHas r.srv.ns c.tmp && (!free || !nsHas r.srv.ns c.final)) with
    | false =>
      simp only [Bool.false_eq_true, if_false]
      refine ⟨?_, ?_, ?_, ?_, trivial⟩
      · intro n d hn
        simp only
        have := h n d hn
        rw [hr] at this
        simpa using this
      · intro d hd; cases hd
      · intro hc; cases hc
      · intro _ d hd; cases hd
    | true =>
      simp only [if_true]
      have hhas : nsHas r.srv.ns c.tmp = true := by
        simp only [Bool.and_eq_true] at hcan; exact hcan.1
      obtain ⟨x, hx⟩ := (nsHas_iff _ _).mp hhas
      refine ⟨?_, ?_, ?_, ?_, trivial⟩
      · intro n d hn
        simp only
        rw [mem_nsRename _ _ _ _ _ (temp_ne hn ht)]
        have := h n d hn
        rw [hr] at this
        rw [this, hx]
        simp only [Option.getD_some, Option.some.injEq]
        constructor
        · rintro ((h1 | ⟨_, h2⟩) | ⟨h1, h2⟩)
          · exact Or.inl h1
          · cases h2
          · exact Or.inr ⟨h1, h2⟩
        · rintro (h1 | ⟨h1, h2⟩)
          · exact Or.inl (Or.inl h1)
          · exact Or.inr ⟨h1, h2⟩
      · intro d hd
        simp only [Option.some.injEq] at hd
        exact hd.symm
      · intro _
        exact ⟨by simp, by simp⟩
      · intro hgood d _
        cases hs : script r.k <;> simp_all [Resp.good, Resp.performed]

end Vsb.Proto

namespace Vsb.Proto
variable {β H : Type} [DecidableEq H]

/-! ### completeness of the stored content when nothing is corrupted -/

theorem req_ok_eff (r : Run β) (script : Nat → Resp) (cls : String) (eff : Effect β)
    (hok : (r.req script cls eff).2 = true) (hnc : script r.k ≠ .corrupt) :
    eff r.srv false = some (r.req script cls eff).1.srv := by
  unfold Run.req at hok ⊢
  simp only at hok ⊢
  have hb : (script r.k == Resp.corrupt) = false := by
    cases hs : script r.k <;> simp_all
  rw [hb] at hok ⊢
  cases hp : (script r.k).performed
  · rw [hp] at hok; simp at hok
  · rw [hp] at hok
    simp only [if_true] at hok ⊢
    cases he : eff r.srv false with
    | none => rw [he] at hok; simp at hok
    | some s => rfl

theorem nsGet_nsPut (ns : List (Name × List β)) (t : Name) (d : List β) : nsGet (nsPut ns t d) t = some d := by
  induction ns with
  | nil => simp [nsPut, nsGet, List.find?]
  | cons e es ih =>
    unfold nsPut
    by_cases he : e.1 = t
    · rw [if_pos he]; simp [nsGet, List.find?]
    · rw [if_neg he]
      have : nsGet (e :: nsPut es t d) t = nsGet (nsPut es t d) t := by simp [nsGet, List.find?, he]
      rw [this, ih]

theorem dbxAppends_session (c : Cfg β H) (script : Nat → Resp) (hnc : ∀ k, script k ≠ .corrupt)
    (bs : List (List β)) (r : Run β) (hok : (dbxAppends c script bs r).2 = true) :
    (dbxAppends c script bs r).1.srv.session = r.srv.session ++ bs.flatten := by
  induction bs generalizing r with
  | nil => simp [dbxAppends]
  | cons b bs ih =>
    unfold dbxAppends at hok ⊢
    simp only at hok ⊢
    split
    · rename_i h1
      rw [if_pos h1] at hok
      rw [ih _ hok]
      have := req_ok_eff r script "upload-append" _ h1 (hnc _)
      simp only [Option.some.injEq] at this
      rw [← this]
      simp [dataOf]
    · rename_i h1
      rw [if_neg h1] at hok
      cases hok

theorem req_noEffect_srv (r : Run β) (script : Nat → Resp) (cls : String) :
    (r.req script cls noEffect).1.srv = r.srv := by
  unfold Run.req noEffect
  simp only
  split <;> rfl

theorem yaPoll_srv (script : Nat → Resp) (n : Nat) (r : Run β) : (yaPoll script n r).1.srv = r.srv := by
  induction n generalizing r with
  | zero => rfl
  | succ n ih =>
    unfold yaPoll
    simp only
    split
    · rw [req_noEffect_srv]
    · split
      · rw [ih, req_noEffect_srv]
      · rw [req_noEffect_srv]
      · rw [req_noEffect_srv]

theorem reads_srv (script : Nat → Resp) (cls : String) (n : Nat) (r : Run β) : (reads script cls n r).1.srv = r.srv := by
  induction n generalizing r with
  | zero => rfl
  | succ n ih =>
    unfold reads
    simp only
    split
    · rw [ih, req_noEffect_srv]
    · rw [req_noEffect_srv]

/-- After successful PUTs of a non-empty body list the temporary object holds the last body. -/
theorem yaPuts_stored (c : Cfg β H) (script : Nat → Resp) (hnc : ∀ k, script k ≠ .corrupt)
    (bs : List (List β)) (r : Run β) (hok : (yaPuts c script bs r).2 = true) (b : List β) (hb : bs.getLast? = some b) :
    nsGet (yaPuts c script bs r).1.srv.ns c.tmp = some b := by
  induction bs generalizing r with
  | nil => cases hb
  | cons x xs ih =>
    unfold yaPuts at hok ⊢
    simp only at hok ⊢
    split
    · rename_i h1
      rw [if_pos h1] at hok
      have hs := req_ok_eff r script "upload-put" _ h1 (hnc _)
      simp only [Option.some.injEq] at hs
      cases xs with
      | nil =>
        simp only [List.getLast?_singleton, Option.some.injEq] at hb
        subst hb
        simp only [yaPuts]
        rw [← hs]
        simp only [dataOf, Bool.false_eq_true, if_false]
        exact nsGet_nsPut _ _ _
      | cons y ys =>
        apply ih _ hok
        simpa [List.getLast?_cons_cons] using hb
    · rename_i h1
      rw [if_neg h1] at hok
      cases hok

theorem gPut_stored (c : Cfg β H) (script : Nat → Resp) (hnc : ∀ k, script k ≠ .corrupt)
    (b : List β) (r : Run β) (hok : (gPut c script b r).2 = true) :
    nsGet (gPut c script b r).1.srv.ns c.tmp = some b := by
  unfold gPut at hok ⊢
  simp only at hok ⊢
  split
  · rename_i h1; rw [if_pos h1] at hok; cases hok
  · rename_i h1
    rw [if_neg h1] at hok
    split
    · rename_i h2; rw [if_pos h2] at hok; cases hok
    · rename_i h2
      rw [if_neg h2] at hok
      have hs := req_ok_eff _ script "session-put" _ hok (hnc _)
      simp only [Option.some.injEq] at hs
      rw [← hs]
      simp only [dataOf, Bool.false_eq_true, if_false]
      exact nsGet_nsPut _ _ _

theorem gPuts_stored (c : Cfg β H) (script : Nat → Resp) (hnc : ∀ k, script k ≠ .corrupt)
    (bs : List (List β)) (r : Run β) (hok : (gPuts c script bs r).2 = true) (b : List β) (hb : bs.getLast? = some b) :
    nsGet (gPuts c script bs r).1.srv.ns c.tmp = some b := by
  induction bs generalizing r with
  | nil => cases hb
  | cons x xs ih =>
    unfold gPuts at hok ⊢
    simp only at hok ⊢
    split
    · rename_i h1
      rw [if_pos h1] at hok
      cases xs with
      | nil =>
        simp only [List.getLast?_singleton, Option.some.injEq] at hb
        subst hb
        simp only [gPuts]
        exact gPut_stored c script hnc _ r h1
      | cons y ys =>
        apply ih _ hok
        simpa [List.getLast?_cons_cons] using hb
    · rename_i h1
      rw [if_neg h1] at hok
      cases hok

end Vsb.Proto

namespace Vsb.Proto
variable {β H : Type} [DecidableEq H]

theorem renameStep_renamed (c : Cfg β H) (script : Nat → Resp) (cls : String) (free : Bool) (r : Run β) (d : List β)
    (h : (renameStep c script cls free r).1.renamed = some d) : d = (nsGet r.srv.ns c.tmp).getD [] := by
  unfold renameStep at h
  simp only at h
  split at h
  · simp only [Option.some.injEq] at h; exact h.symm
  · cases h

theorem not_not_true {b : Bool} (h : ¬(!b) = true) : b = true := by
  cases b <;> simp_all

end Vsb.Proto
