import VsbModel.Model.Split
set_option linter.unusedSimpArgs false
set_option linter.unusedVariables false

/-! A consumer that stops early (C17, last clause): the run with a send budget follows the unlimited
run until the budget is used up; the next send fails and the splitter returns an error at once. -/
namespace Vsb.Split
variable {α : Type}

/-- Number of sends (everything but the closing of a body) in an event list. -/
def nSends (evs : List (Ev α)) : Nat := (evs.filter Ev.isSend).length

@[simp] theorem nSends_append (a b : List (Ev α)) : nSends (a ++ b) = nSends a + nSends b := by
  simp [nSends, List.filter_append]
@[simp] theorem nSends_nil : nSends ([] : List (Ev α)) = 0 := rfl
@[simp] theorem nSends_close : nSends ([Ev.close] : List (Ev α)) = 0 := rfl
@[simp] theorem nSends_chunk (d : List α) : nSends [Ev.chunk d] = 1 := rfl
@[simp] theorem nSends_stream (o : Nat) : nSends ([Ev.stream o] : List (Ev α)) = 1 := rfl
@[simp] theorem nSends_chunk_close (d : List α) : nSends [Ev.chunk d, Ev.close] = 1 := rfl
@[simp] theorem nSends_eof (o c : Nat) : nSends ([Ev.eof o c] : List (Ev α)) = 1 := rfl
@[simp] theorem nSends_err (e : String) : nSends ([Ev.err e] : List (Ev α)) = 1 := rfl

/-- Room left in the current body. -/
def availOf (max : Option Nat) (s : St) (data : List α) : Nat :=
  match max with
  | some m => m - s.streamSize
  | none => data.length

/-- `feedAux` once a body is open. -/
def afterOpen (max : Option Nat) (fuel : Nat) (s : St) (b : Option Nat) (data : List α) (acc : List (Ev α)) (avail : Nat) : FeedOut α :=
  if avail ≥ data.length then
    match trySend b with
    | none => ⟨s, acc, b, true⟩
    | some b' => ⟨{ s with streamSize := s.streamSize + data.length, offset := s.offset + data.length }, acc ++ [Ev.chunk data], b', false⟩
  else if avail > 0 then
    match trySend b with
    | none => ⟨{ s with isOpen := false }, acc, b, true⟩
    | some b' => feedAux max fuel { isOpen := false, streamSize := s.streamSize + avail, offset := s.offset + avail } b'
        (data.drop avail) (acc ++ [Ev.chunk (data.take avail), Ev.close])
  else feedAux max fuel { s with isOpen := false } b data (acc ++ [Ev.close])

theorem feedAux_succ (max : Option Nat) (fuel : Nat) (s : St) (b : Option Nat) (data : List α) (acc : List (Ev α)) :
    feedAux max (fuel+1) s b data acc =
      if data.length = 0 then ⟨s, acc, b, false⟩
      else if s.isOpen then afterOpen max fuel s b data acc (availOf max s data)
      else match trySend b with
        | none => ⟨s, acc, b, true⟩
        | some b' => afterOpen max fuel { s with isOpen := true, streamSize := 0 } b' data (acc ++ [Ev.stream s.offset])
            (availOf max { s with isOpen := true, streamSize := 0 } data) := by
  unfold feedAux
  by_cases hz : data.length = 0
  · simp only [hz, if_true]
  · simp only [hz, if_false]
    cases ho : s.isOpen with
    | true => simp only [if_true]; rfl
    | false =>
      simp only [Bool.false_eq_true, if_false]
      cases trySend b with
      | none => rfl
      | some b' => rfl

/-- The budgeted feed relative to the unlimited one, in terms of the sends made. -/
structure FeedRel (n : Nat) (acc : List (Ev α)) (u o : FeedOut α) : Prop where
  /-- not failed: the same events and state, the budget reduced by the sends made -/
  same : o.failed = false → o.evs = u.evs ∧ o.st = u.st ∧ u.failed = false ∧
      nSends u.evs - nSends acc ≤ n ∧ o.budget = some (n - (nSends u.evs - nSends acc))
  /-- failed: either the unlimited feed fails too (fuel), or the budget ran out: exactly `n` further sends
  were made and the unlimited feed makes more -/
  cut : o.failed = true → u.failed = true ∨
      (nSends o.evs = nSends acc + n ∧ nSends acc + n < nSends u.evs)
  /-- events only grow -/
  extO : ∃ e, o.evs = acc ++ e
  extU : ∃ e, u.evs = acc ++ e

/-- A send was made before (event `ev`): shift the accounting by one. -/
theorem feedRel_after_send {n : Nat} {acc pre : List (Ev α)} {u o : FeedOut α} (hpre : nSends pre = 1)
    (r : FeedRel n (acc ++ pre) u o) : FeedRel (n+1) acc u o := by
  obtain ⟨eo, heo⟩ := r.extO
  obtain ⟨eu, heu⟩ := r.extU
  refine ⟨?_, ?_, ⟨_, (by rw [heo, List.append_assoc])⟩, ⟨_, (by rw [heu, List.append_assoc])⟩⟩
  · intro hf
    obtain ⟨h1, h2, h3, h4, h5⟩ := r.same hf
    refine ⟨h1, h2, h3, ?_, ?_⟩
    · rw [heu] at h4 ⊢
      simp only [nSends_append, hpre] at h4 ⊢
      omega
    · rw [h5, heu]
      simp only [nSends_append, hpre]
      congr 1
      omega
  · intro hf
    rcases r.cut hf with h | ⟨h1, h2⟩
    · exact Or.inl h
    · right
      simp only [nSends_append, hpre] at h1 h2
      exact ⟨(by omega), (by omega)⟩

/-- Only a close happened before: the accounting is unchanged. -/
theorem feedRel_after_close {n : Nat} {acc pre : List (Ev α)} {u o : FeedOut α} (hpre : nSends pre = 0)
    (r : FeedRel n (acc ++ pre) u o) : FeedRel n acc u o := by
  obtain ⟨eo, heo⟩ := r.extO
  obtain ⟨eu, heu⟩ := r.extU
  refine ⟨?_, ?_, ⟨_, (by rw [heo, List.append_assoc])⟩, ⟨_, (by rw [heu, List.append_assoc])⟩⟩
  · intro hf
    obtain ⟨h1, h2, h3, h4, h5⟩ := r.same hf
    refine ⟨h1, h2, h3, ?_, ?_⟩
    · simp only [nSends_append, hpre, Nat.add_zero] at h4; exact h4
    · rw [h5]; simp only [nSends_append, hpre, Nat.add_zero]
  · intro hf
    rcases r.cut hf with h | ⟨h1, h2⟩
    · exact Or.inl h
    · right
      simp only [nSends_append, hpre, Nat.add_zero] at h1 h2
      exact ⟨h1, h2⟩

/-- The budget is exhausted and the unlimited run is about to send `pre`. -/
theorem feedRel_fail_now {acc pre : List (Ev α)} {u : FeedOut α} (s : St) (b : Option Nat) (hpre : 0 < nSends pre)
    (hu : ∃ e, u.evs = acc ++ pre ++ e) : FeedRel 0 acc u ⟨s, acc, b, true⟩ := by
  obtain ⟨e, he⟩ := hu
  refine ⟨(by intro h; cases h), ?_, ⟨[], (by simp)⟩, ⟨pre ++ e, (by rw [he, List.append_assoc])⟩⟩
  intro _
  right
  rw [he]
  simp only [nSends_append]
  exact ⟨(by simp), (by omega)⟩

theorem feedRel_ext_of {n : Nat} {acc : List (Ev α)} {u o : FeedOut α} (r : FeedRel n acc u o) : ∃ e, u.evs = acc ++ e := r.extU

theorem afterOpen_budget (max : Option Nat) (fuel : Nat)
    (ih : ∀ (s : St) (n : Nat) (data : List α) (acc : List (Ev α)),
      FeedRel n acc (feedAux max fuel s none data acc) (feedAux max fuel s (some n) data acc))
    (s : St) (n : Nat) (data : List α) (hd : data.length ≠ 0) (acc : List (Ev α)) (avail : Nat) :
    FeedRel n acc (afterOpen max fuel s none data acc avail) (afterOpen max fuel s (some n) data acc avail) := by
  unfold afterOpen
  by_cases hfit : avail ≥ data.length
  · rw [if_pos hfit, if_pos hfit]
    cases n with
    | zero =>
      simp only [trySend]
      exact feedRel_fail_now s (some 0) (pre := [Ev.chunk data]) (by simp) ⟨[], (by simp)⟩
    | succ m =>
      simp only [trySend]
      exact ⟨(by intro _; exact ⟨rfl, rfl, rfl, (by simp), (by simp)⟩), (by intro h; cases h), ⟨_, rfl⟩, ⟨_, rfl⟩⟩
  · rw [if_neg hfit, if_neg hfit]
    by_cases hpos : avail > 0
    · rw [if_pos hpos, if_pos hpos]
      cases n with
      | zero =>
        simp only [trySend]
        obtain ⟨e, he⟩ := (ih { isOpen := false, streamSize := s.streamSize + avail, offset := s.offset + avail } 0
          (data.drop avail) (acc ++ [Ev.chunk (data.take avail), Ev.close])).extU
        exact feedRel_fail_now _ (some 0) (pre := [Ev.chunk (data.take avail), Ev.close]) (by simp) ⟨e, he⟩
      | succ m =>
        simp only [trySend]
        exact feedRel_after_send (pre := [Ev.chunk (data.take avail), Ev.close]) (by simp) (ih _ m _ _)
    · rw [if_neg hpos, if_neg hpos]
      exact feedRel_after_close (pre := [Ev.close]) (by simp) (ih _ n _ _)

theorem feedAux_budget (max : Option Nat) (fuel : Nat) (s : St) (n : Nat) (data : List α) (acc : List (Ev α)) :
    FeedRel n acc (feedAux max fuel s none data acc) (feedAux max fuel s (some n) data acc) := by
  induction fuel generalizing s n data acc with
  | zero =>
    simp only [feedAux]
    exact ⟨(by intro h; cases h), (by intro _; exact Or.inl rfl), ⟨[], (by simp)⟩, ⟨[], (by simp)⟩⟩
  | succ fuel ih =>
    rw [feedAux_succ, feedAux_succ]
    by_cases hz : data.length = 0
    · simp only [hz, if_true]
      exact ⟨(by intro _; exact ⟨rfl, rfl, rfl, (by simp), (by simp)⟩), (by intro h; cases h), ⟨[], (by simp)⟩, ⟨[], (by simp)⟩⟩
    · simp only [hz, if_false]
      cases ho : s.isOpen with
      | true =>
        simp only [if_true]
        exact afterOpen_budget max fuel ih s n data hz acc _
      | false =>
        simp only [Bool.false_eq_true, if_false]
        cases n with
        | zero =>
          simp only [trySend]
          obtain ⟨e, he⟩ := (afterOpen_budget max fuel ih { s with isOpen := true, streamSize := 0 } 0 data hz
            (acc ++ [Ev.stream s.offset]) (availOf max { s with isOpen := true, streamSize := 0 } data)).extU
          exact feedRel_fail_now s (some 0) (pre := [Ev.stream s.offset]) (by simp) ⟨e, he⟩
        | succ m =>
          simp only [trySend]
          exact feedRel_after_send (pre := [Ev.stream s.offset]) (by simp) (afterOpen_budget max fuel ih _ m data hz _ _)

end Vsb.Split

namespace Vsb.Split
variable {α : Type}

theorem feedAux_budget_none (max : Option Nat) (fuel : Nat) (s : St) (data : List α) (acc : List (Ev α)) :
    (feedAux max fuel s none data acc).budget = none := by
  induction fuel generalizing s data acc with
  | zero => rfl
  | succ fuel ih =>
    rw [feedAux_succ]
    have hao : ∀ s' acc' avail, (afterOpen max fuel s' none data acc' avail).budget = none := by
      intro s' acc' avail
      unfold afterOpen
      split
      · simp [trySend]
      · split
        · simp only [trySend]; exact ih _ _ _
        · exact ih _ _ _
    split
    · rfl
    · split
      · exact hao _ _ _
      · simp only [trySend]; exact hao _ _ _

theorem run_payload (max : Option Nat) (s : St) (b : Option Nat) (d : List α) (rest : List (Msg α)) (acc : List (Ev α)) :
    run max s b (.payload d :: rest) acc =
      if (feed max s b d acc).failed then ((feed max s b d acc).evs, Res.sendClosed)
      else run max (feed max s b d acc).st (feed max s b d acc).budget rest (feed max s b d acc).evs := by
  simp only [run]

/-- The run with a budget of `n` sends, relative to the unlimited run (which is assumed not to fail). -/
theorem run_budget (max : Option Nat) (msgs : List (Msg α)) :
    ∀ (s : St) (n : Nat) (acc : List (Ev α)), (run max s none msgs acc).2 ≠ .sendClosed →
      (∃ e, (run max s none msgs acc).1 = acc ++ e) ∧
      (nSends (run max s none msgs acc).1 ≤ nSends acc + n → run max s (some n) msgs acc = run max s none msgs acc) ∧
      (nSends acc + n < nSends (run max s none msgs acc).1 →
        (run max s (some n) msgs acc).2 = .sendClosed ∧ nSends (run max s (some n) msgs acc).1 = nSends acc + n) := by
  induction msgs with
  | nil =>
    intro s n acc _
    simp only [run]
    refine ⟨?_, (fun _ => trivial), ?_⟩
    · split
      · exact ⟨_, rfl⟩
      · exact ⟨[], (by simp)⟩
    · intro h
      exfalso
      split at h
      · simp only [nSends_append, nSends_close] at h; omega
      · omega
  | cons m rest ih =>
    intro s n acc hns
    cases m with
    | payload d =>
      rw [run_payload] at hns ⊢
      rw [run_payload]
      have r : FeedRel n acc (feed max s none d acc) (feed max s (some n) d acc) := feedAux_budget max _ s n d acc
      have hbn : (feed max s none d acc).budget = none := feedAux_budget_none max _ s d acc
      generalize feed max s none d acc = U at *
      generalize feed max s (some n) d acc = O at *
      cases hU : U.failed with
      | true => simp only [hU, if_true] at hns; exact absurd rfl hns
      | false =>
        simp only [hU, Bool.false_eq_true, if_false] at hns ⊢
        rw [hbn] at hns ⊢
        obtain ⟨eu, heu⟩ := r.extU
        cases hO : O.failed with
        | true =>
          simp only [if_true]
          rcases r.cut hO with h | ⟨h1, h2⟩
          · rw [hU] at h; cases h
          · obtain ⟨⟨e1, he1⟩, _, _⟩ := ih U.st 0 U.evs hns
            have hmore : nSends acc + n < nSends (run max U.st none rest U.evs).1 := by
              rw [he1]; simp only [nSends_append]; omega
            refine ⟨⟨_, (by rw [he1, heu, List.append_assoc])⟩, ?_, ?_⟩
            · intro hle; omega
            · intro _; exact ⟨trivial, h1⟩
        | false =>
          simp only [Bool.false_eq_true, if_false]
          obtain ⟨h1, h2, _, h4, h5⟩ := r.same hO
          rw [h1, h2, h5]
          obtain ⟨⟨e1, he1⟩, i2, i3⟩ := ih U.st (n - (nSends U.evs - nSends acc)) U.evs hns
          have hge : nSends acc ≤ nSends U.evs := by
            rw [heu]; simp only [nSends_append]; omega
          refine ⟨⟨_, (by rw [he1, heu, List.append_assoc])⟩, ?_, ?_⟩
          · intro hle; exact i2 (by omega)
          · intro hlt
            have := i3 (by omega)
            exact ⟨this.1, (by rw [this.2]; omega)⟩
    | eof c =>
      simp only [run] at hns ⊢
      cases ho : s.isOpen with
      | true =>
        simp only [ho, if_true] at hns ⊢
        cases n with
        | zero =>
          simp only [trySend] at hns ⊢
          refine ⟨⟨[Ev.close, Ev.eof s.offset c], (by simp)⟩, ?_, ?_⟩
          · intro hle
            exfalso
            simp only [nSends_append, nSends_close, nSends_eof] at hle
            omega
          · intro _
            exact ⟨trivial, (by simp [nSends_append])⟩
        | succ k =>
          simp only [trySend] at hns ⊢
          refine ⟨⟨[Ev.close, Ev.eof s.offset c], (by simp)⟩, (fun _ => trivial), ?_⟩
          intro hlt
          exfalso
          simp only [nSends_append, nSends_close, nSends_eof] at hlt
          omega
      | false =>
        simp only [ho, Bool.false_eq_true, if_false] at hns ⊢
        cases n with
        | zero =>
          simp only [trySend] at hns ⊢
          refine ⟨⟨[Ev.eof s.offset c], rfl⟩, ?_, ?_⟩
          · intro hle
            exfalso
            simp only [nSends_append, nSends_eof] at hle
            omega
          · intro _
            exact ⟨trivial, (by simp)⟩
        | succ k =>
          simp only [trySend] at hns ⊢
          refine ⟨⟨[Ev.eof s.offset c], rfl⟩, (fun _ => trivial), ?_⟩
          intro hlt
          exfalso
          simp only [nSends_append, nSends_eof] at hlt
          omega
    | err e =>
      simp only [run] at hns ⊢
      cases ho : s.isOpen with
      | true =>
        simp only [ho, if_true] at hns ⊢
        cases n with
        | zero =>
          simp only [trySend] at hns ⊢
          refine ⟨⟨[Ev.close, Ev.err e], (by simp)⟩, ?_, ?_⟩
          · intro hle
            exfalso
            simp only [nSends_append, nSends_close, nSends_err] at hle
            omega
          · intro _
            exact ⟨trivial, (by simp [nSends_append])⟩
        | succ k =>
          simp only [trySend] at hns ⊢
          refine ⟨⟨[Ev.close, Ev.err e], (by simp)⟩, (fun _ => trivial), ?_⟩
          intro hlt
          exfalso
          simp only [nSends_append, nSends_close, nSends_err] at hlt
          omega
      | false =>
        simp only [ho, Bool.false_eq_true, if_false] at hns ⊢
        cases n with
        | zero =>
          simp only [trySend] at hns ⊢
          refine ⟨⟨[Ev.err e], rfl⟩, ?_, ?_⟩
          · intro hle
            exfalso
            simp only [nSends_append, nSends_err] at hle
            omega
          · intro _
            exact ⟨trivial, (by simp)⟩
        | succ k =>
          simp only [trySend] at hns ⊢
          refine ⟨⟨[Ev.err e], rfl⟩, (fun _ => trivial), ?_⟩
          intro hlt
          exfalso
          simp only [nSends_append, nSends_err] at hlt
          omega

end Vsb.Split
