import VsbModel.Lemmas.RestorePlan
import VsbModel.Model.SelfContained
set_option linter.unusedSimpArgs false
set_option linter.unusedSectionVars false
set_option linter.unusedVariables false

/-!
Restoring a self-contained backup (every non-empty file carries its data: the first backup of a group,
or any backup without deduplicated content): `vsb restore` exits 0 and rebuilds exactly the archived
entries — paths, kinds, bytes, link targets and metadata.
-/
namespace Vsb.Restore
variable {H β : Type} [DecidableEq H]

/-- A well-formed archive, as `vsb backup` writes it: supported entry kinds, valid relative paths that map
back from their manifest spelling, no path twice, and every entry below an earlier directory entry (or at
the top). -/
structure WFArchive (es : List (Entry β)) : Prop where
  noOther : ∀ e ∈ es, e.isOther = false
  paths : ∀ e ∈ es, tarPathToFile e.path = some (fpOf e)
  keys : ∀ e ∈ es, manifestPathToFile (keyOf (fpOf e)) = some (fpOf e)
  nodup : (es.map fpOf).Nodup
  parents : ∀ (pre : List (Entry β)) (e : Entry β) (post : List (Entry β)), es = pre ++ e :: post →
      (fpOf e).dropLast = [] ∨ ∃ d ∈ pre, d.isDir = true ∧ fpOf d = (fpOf e).dropLast

/-- The plan's file table for a self-contained backup: one data-carrying record per file, no fan-out. -/
def filesOf (hashOf : List β → H) (es : List (Entry β)) : List (String × RFile H) :=
  (manifestOf hashOf es).map (fun r => (r.path, ⟨r.hash, r.size, [r.path]⟩))

theorem recOf_isOwn (hashOf : List β → H) (e : Entry β) (r : MRec H) (h : recOf hashOf e = some r) : isOwn r = true := by
  cases e with
  | file p m d =>
    simp only [recOf, Option.some.injEq] at h
    subst h
    simp only [isOwn]
    by_cases hd : d.length = 0 <;> simp [hd]
  | dir p m => cases h
  | symlink p m t => cases h
  | other p => cases h

theorem manifestOf_allOwn (hashOf : List β → H) (es : List (Entry β)) : ∀ r ∈ manifestOf hashOf es, isOwn r = true := by
  intro r hr
  obtain ⟨e, _, he⟩ := List.mem_filterMap.mp hr
  exact recOf_isOwn hashOf e r he

theorem keyOf_inj_of (fp1 fp2 : FPath) (h1 : manifestPathToFile (keyOf fp1) = some fp1)
    (h2 : manifestPathToFile (keyOf fp2) = some fp2) (h : keyOf fp1 = keyOf fp2) : fp1 = fp2 := by
  rw [h] at h1
  rw [h1] at h2
  exact Option.some.inj h2

/-- The paths of the manifest records are pairwise distinct. -/
theorem manifest_paths_nodup (hashOf : List β → H) (es : List (Entry β)) (wf : WFArchive es) :
    ((manifestOf hashOf es).map (·.path)).Nodup := by
  have hk := wf.keys
  have hn := wf.nodup
  clear wf
  induction es with
  | nil => simp [manifestOf]
  | cons e rest ih =>
    have hk' : ∀ e' ∈ rest, manifestPathToFile (keyOf (fpOf e')) = some (fpOf e') :=
      fun e' he' => hk e' (List.mem_cons_of_mem _ he')
    simp only [List.map_cons, List.nodup_cons] at hn
    have ih' := ih hk' hn.2
    unfold manifestOf at ih' ⊢
    simp only [List.filterMap_cons]
    cases hr : recOf hashOf e with
    | none => simpa using ih'
    | some r =>
      simp only [List.map_cons, List.nodup_cons]
      refine ⟨?_, ih'⟩
      intro hmem
      obtain ⟨r', hr', hp⟩ := List.mem_map.mp hmem
      obtain ⟨e', he', hre'⟩ := List.mem_filterMap.mp hr'
      -- both are file entries with the same key, hence the same path below the restore directory
      have p1 : r.path = keyOf (fpOf e) := by
        cases e with
        | file p m d => simp only [recOf, Option.some.injEq] at hr; rw [← hr]
        | dir p m => cases hr
        | symlink p m t => cases hr
        | other p => cases hr
      have p2 : r'.path = keyOf (fpOf e') := by
        cases e' with
        | file p m d => simp only [recOf, Option.some.injEq] at hre'; rw [← hre']
        | dir p m => cases hre'
        | symlink p m t => cases hre'
        | other p => cases hre'
      have heq : fpOf e' = fpOf e := keyOf_inj_of _ _ (hk' e' he') (hk e (by simp)) (by rw [← p2, ← p1, hp])
      apply hn.1
      rw [← heq]
      exact List.mem_map_of_mem he'

end Vsb.Restore

namespace Vsb.Restore
variable {H β : Type} [DecidableEq H]

theorem ownStep_fresh (acc : PlanAcc H) (r : MRec H) (htf : acc.tf = []) (hok : acc.ok = true)
    (hnew : acc.files.any (·.1 = r.path) = false) :
    ownStep acc r = { files := acc.files ++ [(r.path, ⟨r.hash, r.size, [r.path]⟩)], ext := acc.ext, tf := [], ok := true } := by
  unfold ownStep
  simp only [htf, toFindRemove, List.find?_nil, Option.map_none, Option.getD_none, List.map_nil, List.nil_append,
    List.append_nil, List.filter_nil, hok, hnew, sizesOk, List.all_nil, Bool.not_false, Bool.and_self]
  unfold mapInsert
  simp [hnew]

theorem foldl_ownStep_fresh (recs : List (MRec H)) (acc : PlanAcc H) (htf : acc.tf = []) (hok : acc.ok = true)
    (hnd : (recs.map (·.path)).Nodup) (hdis : ∀ r ∈ recs, acc.files.any (·.1 = r.path) = false) :
    recs.foldl ownStep acc =
      { files := acc.files ++ recs.map (fun r => (r.path, ⟨r.hash, r.size, [r.path]⟩)), ext := acc.ext, tf := [], ok := true } := by
  induction recs generalizing acc with
  | nil => cases acc; simp_all
  | cons r rest ih =>
    simp only [List.foldl_cons]
    rw [ownStep_fresh acc r htf hok (hdis r (by simp))]
    simp only [List.map_cons, List.nodup_cons] at hnd
    rw [ih _ rfl rfl hnd.2]
    · simp [List.append_assoc]
    · intro r' hr'
      simp only [List.any_append, List.any_cons, List.any_nil, Bool.or_false, Bool.or_eq_false_iff, decide_eq_false_iff_not]
      refine ⟨hdis r' (List.mem_cons_of_mem _ hr'), ?_⟩
      intro heq
      apply hnd.1
      rw [heq]
      exact List.mem_map_of_mem hr'

theorem planTarget_single (hashOf : List β → H) (es : List (Entry β)) (wf : WFArchive es) :
    planTarget (manifestOf hashOf es) = { files := filesOf hashOf es, ext := [], tf := [], ok := true } := by
  unfold planTarget
  have hown := manifestOf_allOwn hashOf es
  have h1 : (manifestOf hashOf es).filter (fun r => !isOwn r) = [] := by
    rw [List.filter_eq_nil_iff]
    intro r hr
    simp [hown r hr]
  have h2 : (manifestOf hashOf es).filter isOwn = manifestOf hashOf es := by
    rw [List.filter_eq_self]
    exact hown
  simp only [h1, h2, List.foldl_nil]
  rw [foldl_ownStep_fresh _ _ rfl rfl (manifest_paths_nodup hashOf es wf) (by intro r _; rfl)]
  simp [filesOf]

theorem earlierBackups_nothing_to_find (group : List (Backup H β)) (idx : List Nat) (steps : List (Step H)) (ext : List String) (ok : Bool) :
    earlierBackups group idx steps ext [] ok = some (steps, ext, [], ok) := by
  cases idx <;> simp [earlierBackups]

/-- Planning the restore of a self-contained backup (whatever else the group holds): one step, nothing looked
for elsewhere, no complaint. -/
theorem plan_single (hashOf : List β → H) (group : List (Backup H β)) (target : Nat) (name : String) (es : List (Entry β))
    (wf : WFArchive es) (hb : group[target]? = some ⟨name, some (manifestOf hashOf es), es, true⟩) :
    plan group target = .ok { steps := [⟨target, filesOf hashOf es⟩], externFiles := [], missingFiles := [] } true := by
  unfold plan
  simp only [hb, planTarget_single hashOf es wf, earlierBackups_nothing_to_find, List.flatMap_nil, List.isEmpty_nil, Bool.and_self]

end Vsb.Restore

namespace Vsb.Restore
variable {H β : Type} [DecidableEq H]

/-! ### executing the single step -/

/-- Node of an entry while the archive is still being read: directories get their metadata at the end. -/
def partialNode : Entry β → FNode β
  | .dir _ _ => .dir none
  | .file _ m d => .file d (some m)
  | .symlink _ m t => .symlink t m
  | .other _ => .dir none

def fsPart (pre : List (Entry β)) : FS β := pre.map (fun e => (fpOf e, partialNode e))

def schedOf (pre : List (Entry β)) : List (FPath × Meta) :=
  pre.filterMap (fun e => match e with | .dir _ m => some (fpOf e, m) | _ => none)

def seenOf (pre : List (Entry β)) : List String :=
  pre.filterMap (fun e => match e with | .file _ _ _ => some (keyOf (fpOf e)) | _ => none)

def stOf (pre : List (Entry β)) : RSt β :=
  { fs := fsPart pre, ok := true, pending := [], restored := [], missing := [], preCreated := [], scheduled := schedOf pre }

theorem fsGet_map_none (pre : List (Entry β)) (g : Entry β → FNode β) (fp : FPath) (h : fp ∉ pre.map fpOf) :
    fsGet (pre.map (fun e => (fpOf e, g e))) fp = none := by
  unfold fsGet
  rw [Option.map_eq_none_iff, List.find?_eq_none]
  intro x hx
  obtain ⟨e, he, rfl⟩ := List.mem_map.mp hx
  simp only [decide_eq_true_eq]
  intro heq
  exact h (heq ▸ List.mem_map_of_mem he)

theorem fsGet_map_mem (pre : List (Entry β)) (g : Entry β → FNode β) (d : Entry β) (hd : d ∈ pre)
    (hn : (pre.map fpOf).Nodup) : fsGet (pre.map (fun e => (fpOf e, g e))) (fpOf d) = some (g d) := by
  induction pre with
  | nil => cases hd
  | cons x xs ih =>
    simp only [List.map_cons, List.nodup_cons] at hn
    unfold fsGet
    simp only [List.map_cons, List.find?_cons]
    by_cases hx : fpOf x = fpOf d
    · simp only [hx, decide_true, Option.map_some]
      rcases List.mem_cons.mp hd with rfl | hd'
      · rfl
      · exfalso; apply hn.1; rw [hx]; exact List.mem_map_of_mem hd'
    · simp only [hx, decide_false]
      rcases List.mem_cons.mp hd with rfl | hd'
      · exact absurd rfl hx
      · exact ih hd' hn.2

theorem tarPathToFile_ne_nil (p : String) (fp : FPath) (h : tarPathToFile p = some fp) : fp ≠ [] := by
  unfold tarPathToFile at h
  split at h
  · simp only [Option.some.injEq] at h; rw [← h]; simp
  · cases h

/-- Preconditions of creating entry `e` after the entries `pre`. -/
theorem create_ok (pre : List (Entry β)) (e : Entry β) (post : List (Entry β)) (wf : WFArchive (pre ++ e :: post))
    (n : FNode β) : fsCreate (fsPart pre) (fpOf e) n = some (fsPart pre ++ [(fpOf e, n)]) := by
  have hn := wf.nodup
  rw [List.map_append, List.map_cons] at hn
  have hn1 : (pre.map fpOf).Nodup := (List.nodup_append.mp hn).1
  have hnotin : fpOf e ∉ pre.map fpOf := by
    intro hin
    have := (List.nodup_append.mp hn).2.2 (fpOf e) hin (fpOf e) (by simp)
    exact this rfl
  have hget : fsGet (fsPart pre) (fpOf e) = none := fsGet_map_none pre partialNode _ hnotin
  have hne : fpOf e ≠ [] := tarPathToFile_ne_nil _ _ (wf.paths e (by simp))
  have hpar : parentOk (fsPart pre) (fpOf e) = true := by
    unfold parentOk
    rcases wf.parents pre e post rfl with h | ⟨d, hd, hdir, hfp⟩
    · rw [h]
    · rw [← hfp]
      have hg := fsGet_map_mem pre partialNode d hd hn1
      cases hfd : fpOf d with
      | nil =>
        exfalso
        exact tarPathToFile_ne_nil _ _ (wf.paths d (by simp [hd])) hfd
      | cons c cs =>
        rw [hfd] at hg
        unfold fsPart
        simp only [hg]
        cases d with
        | dir p m => rfl
        | file p m dd => cases hdir
        | symlink p m t => cases hdir
        | other p => cases hdir
  unfold fsCreate
  simp [hget, hpar, hne]

theorem mapGet_filesOf (hashOf : List β → H) (es : List (Entry β)) (wf : WFArchive es) (p : String) (m : Meta) (d : List β)
    (he : Entry.file p m d ∈ es) :
    mapGet (filesOf hashOf es) (keyOf (fpOf (Entry.file p m d : Entry β))) =
      some ⟨hashOf d, d.length, [keyOf (fpOf (Entry.file p m d : Entry β))]⟩ := by
  have hnd := manifest_paths_nodup hashOf es wf
  have hmem : (⟨decide (d.length ≠ 0), hashOf d, d.length, keyOf (fpOf (Entry.file p m d : Entry β))⟩ : MRec H) ∈ manifestOf hashOf es :=
    List.mem_filterMap.mpr ⟨_, he, rfl⟩
  unfold filesOf
  generalize manifestOf hashOf es = recs at hnd hmem
  induction recs with
  | nil => cases hmem
  | cons r rest ih =>
    simp only [List.map_cons, List.nodup_cons] at hnd
    unfold mapGet
    simp only [List.map_cons, List.find?_cons]
    rcases List.mem_cons.mp hmem with heq | hin
    · rw [← heq]; simp
    · have hne : r.path ≠ keyOf (fpOf (Entry.file p m d : Entry β)) := by
        intro h
        apply hnd.1
        rw [h]
        exact List.mem_map_of_mem (f := (·.path)) hin
      simp only [hne, decide_false]
      exact ih hnd.2 hin

theorem setMeta_append_new (fs : FS β) (fp : FPath) (n : FNode β) (m : Meta) (h : fsGet fs fp = none) :
    fsSetMeta (fs ++ [(fp, n)]) fp m = some (fs ++ [(fp, setMetaNode m n)]) := by
  unfold fsSetMeta
  rw [fsGet_append_new fs fp n h]
  simp only [List.map_append, List.map_cons, List.map_nil, if_true, Option.some.injEq]
  congr 1
  have hall : ∀ x ∈ fs, x.1 ≠ fp := by
    intro x hx heq
    unfold fsGet at h
    rw [Option.map_eq_none_iff, List.find?_eq_none] at h
    have := h x hx
    simp [heq] at this
  clear h
  induction fs with
  | nil => rfl
  | cons x xs ih =>
    simp only [List.map_cons]
    rw [if_neg (hall x (by simp)), ih (fun y hy => hall y (List.mem_cons_of_mem _ hy))]

end Vsb.Restore

namespace Vsb.Restore
variable {H β : Type} [DecidableEq H]

theorem fsPart_snoc (pre : List (Entry β)) (e : Entry β) : fsPart (pre ++ [e]) = fsPart pre ++ [(fpOf e, partialNode e)] := by
  simp [fsPart]

theorem fsGet_part_none (pre : List (Entry β)) (e : Entry β) (post : List (Entry β)) (wf : WFArchive (pre ++ e :: post)) :
    fsGet (fsPart pre) (fpOf e) = none := by
  have hn := wf.nodup
  rw [List.map_append, List.map_cons] at hn
  apply fsGet_map_none
  intro hin
  exact (List.nodup_append.mp hn).2.2 (fpOf e) hin (fpOf e) (by simp) rfl

/-- One archive entry of a well-formed self-contained backup is processed without complaint. -/
theorem processEntry_single (hashOf : List β → H) (pre : List (Entry β)) (e : Entry β) (post : List (Entry β))
    (wf : WFArchive (pre ++ e :: post)) :
    processEntry hashOf (filesOf hashOf (pre ++ e :: post)) true (stOf pre) (seenOf pre) e =
      some (stOf (pre ++ [e]), seenOf (pre ++ [e])) := by
  have hpath := wf.paths e (by simp)
  have hcreate := fun n => create_ok pre e post wf n
  cases e with
  | other p => have := wf.noOther (.other p) (by simp); cases this
  | dir p m =>
    simp only [processEntry]
    simp only [Entry.path] at hpath
    rw [hpath]
    simp only [stOf, List.contains_nil, Bool.false_eq_true, if_false, Bool.not_true]
    rw [hcreate (.dir none)]
    simp [stOf, fsPart, schedOf, seenOf, List.filterMap_append, partialNode]
  | symlink p m t =>
    simp only [processEntry]
    simp only [Entry.path] at hpath
    rw [hpath]
    simp only [stOf, Bool.not_true, Bool.false_eq_true, if_false]
    rw [hcreate (.symlink t m)]
    simp [stOf, fsPart, schedOf, seenOf, List.filterMap_append, partialNode]
  | file p m d =>
    simp only [processEntry]
    simp only [Entry.path] at hpath
    rw [hpath]
    have hkey := wf.keys (.file p m d) (by simp)
    have hget := mapGet_filesOf hashOf (pre ++ Entry.file p m d :: post) wf p m d (by simp)
    have hk : ("/" ++ "/".intercalate (fpOf (Entry.file p m d : Entry β))) = keyOf (fpOf (Entry.file p m d : Entry β)) := rfl
    simp only [hk, hget]
    -- restore_files
    have hnone := fsGet_part_none pre (.file p m d) post wf
    unfold restoreFiles
    simp only [List.take_length]
    unfold createFiles
    simp only [hkey, Bool.true_and, decide_true, Bool.not_true, Bool.false_and, Bool.false_eq_true, if_false, if_true]
    simp only [stOf] at hcreate ⊢
    rw [hcreate (.file d none)]
    simp only [createFiles, List.append_nil, Nat.lt_irrefl, if_false, ne_eq, not_true_eq_false, List.contains_cons,
      beq_self_eq_true, Bool.true_or, Bool.and_self, if_true, hkey]
    rw [setMeta_append_new _ _ _ _ hnone]
    simp [stOf, fsPart, schedOf, seenOf, List.filterMap_append, partialNode, setMetaNode]

theorem processEntries_single (hashOf : List β → H) (es : List (Entry β)) (wf : WFArchive es) :
    ∀ (pre post : List (Entry β)), es = pre ++ post →
      processEntries hashOf (filesOf hashOf es) true post (stOf pre) (seenOf pre) = some (stOf es, seenOf es) := by
  intro pre post
  induction post generalizing pre with
  | nil => intro h; simp only [List.append_nil] at h; subst h; rfl
  | cons e rest ih =>
    intro h
    simp only [processEntries]
    have wf' : WFArchive (pre ++ e :: rest) := h ▸ wf
    have := processEntry_single hashOf pre e rest wf'
    rw [← h] at this
    rw [this]
    exact ih (pre ++ [e]) (by rw [h]; simp)

end Vsb.Restore

namespace Vsb.Restore
variable {H β : Type} [DecidableEq H]

theorem seen_all (hashOf : List β → H) (es : List (Entry β)) :
    (filesOf hashOf es).all (fun f => (seenOf es).contains f.1) = true := by
  rw [List.all_eq_true]
  intro f hf
  unfold filesOf at hf
  obtain ⟨r, hr, rfl⟩ := List.mem_map.mp hf
  obtain ⟨e, he, hre⟩ := List.mem_filterMap.mp hr
  simp only [List.contains_iff_mem]
  cases e with
  | file p m d =>
    simp only [recOf, Option.some.injEq] at hre
    rw [← hre]
    exact List.mem_filterMap.mpr ⟨.file p m d, he, rfl⟩
  | dir p m => cases hre
  | symlink p m t => cases hre
  | other p => cases hre

theorem processStep_single (hashOf : List β → H) (name : String) (es : List (Entry β)) (wf : WFArchive es) (target : Nat) :
    processStep hashOf (⟨name, some (manifestOf hashOf es), es, true⟩ : Backup H β) ⟨target, filesOf hashOf es⟩ true
      { ok := true, pending := [], missing := [] } = some (stOf es) := by
  unfold processStep
  have h0 : ({ ok := true, pending := [], missing := [] } : RSt β) = stOf [] := rfl
  have h1 : seenOf ([] : List (Entry β)) = [] := rfl
  have := processEntries_single hashOf es wf [] es rfl
  rw [h1, ← h0] at this
  simp only [this, Bool.not_true, Bool.false_eq_true, if_false, Option.some.injEq]
  rw [seen_all]
  simp [stOf]

/-! ### applying the scheduled directory metadata -/

theorem nodup_map_inj {α γ : Type} (f : α → γ) (l : List α) (hn : (l.map f).Nodup) (a b : α) (ha : a ∈ l) (hb : b ∈ l)
    (h : f a = f b) : a = b := by
  induction l with
  | nil => cases ha
  | cons x xs ih =>
    simp only [List.map_cons, List.nodup_cons] at hn
    rcases List.mem_cons.mp ha with rfl | ha'
    · rcases List.mem_cons.mp hb with rfl | hb'
      · rfl
      · exfalso; apply hn.1; rw [h]; exact List.mem_map_of_mem hb'
    · rcases List.mem_cons.mp hb with rfl | hb'
      · exfalso; apply hn.1; rw [← h]; exact List.mem_map_of_mem ha'
      · exact ih hn.2 ha' hb'

/-- The scheduled metadata of `pre`'s directories has been applied to the nodes of `es`. -/
def fsAfter (applied : List (Entry β)) (es : List (Entry β)) : FS β :=
  es.map (fun e => (fpOf e, if e.isDir && applied.any (fun a => fpOf a = fpOf e) then nodeOf e else partialNode e))

theorem nodeOf_partial_nondir (e : Entry β) (h : e.isDir = false) : nodeOf e = partialNode e := by
  cases e <;> simp_all [nodeOf, partialNode, Entry.isDir]

theorem fsAfter_nil (es : List (Entry β)) : fsAfter [] es = fsPart es := by
  simp [fsAfter, fsPart]

theorem fsAfter_all (es : List (Entry β)) : fsAfter es es = fsOf es := by
  unfold fsAfter fsOf
  apply List.map_congr_left
  intro e he
  by_cases hd : e.isDir = true
  · have : es.any (fun a => fpOf a = fpOf e) = true := List.any_eq_true.mpr ⟨e, he, by simp⟩
    simp [hd, this]
  · have hd' : e.isDir = false := by simpa using hd
    simp [hd', nodeOf_partial_nondir e hd']

/-- Applying the metadata of one more directory `d`. -/
theorem fsSetMeta_after (applied : List (Entry β)) (es : List (Entry β)) (p : String) (m : Meta)
    (hd : Entry.dir p m ∈ es) (hn : (es.map fpOf).Nodup) :
    fsSetMeta (fsAfter applied es) (fpOf (Entry.dir p m : Entry β)) m = some (fsAfter (Entry.dir p m :: applied) es) := by
  unfold fsSetMeta
  have hget : fsGet (fsAfter applied es) (fpOf (Entry.dir p m : Entry β)) =
      some (if (Entry.dir p m : Entry β).isDir && applied.any (fun a => fpOf a = fpOf (Entry.dir p m : Entry β)) then nodeOf (Entry.dir p m) else partialNode (Entry.dir p m)) :=
    fsGet_map_mem es _ (Entry.dir p m) hd hn
  rw [hget]
  simp only [Option.some.injEq]
  unfold fsAfter
  rw [List.map_map]
  apply List.map_congr_left
  intro e he
  simp only [Function.comp]
  by_cases heq : fpOf e = fpOf (Entry.dir p m : Entry β)
  · -- `e` is that directory entry (paths are distinct)
    have hee : e = Entry.dir p m := nodup_map_inj fpOf es hn _ _ he hd heq
    rw [hee]
    simp only [Entry.isDir, Bool.true_and, if_true, List.any_cons, decide_true, Bool.true_or, nodeOf]
    split <;> simp [setMetaNode, nodeOf, partialNode]
  · simp only [heq, if_false, List.any_cons, decide_eq_true_eq]
    have : (fpOf (Entry.dir p m : Entry β) = fpOf e) = False := by
      simp only [eq_iff_iff, iff_false]; exact fun h => heq h.symm
    simp [this]

theorem applyMeta_dirs (es : List (Entry β)) (hn : (es.map fpOf).Nodup) :
    ∀ (todo applied : List (Entry β)), (∀ d ∈ todo, d ∈ es) →
      applyMeta [] (schedOf todo) (fsAfter applied es) = some (fsAfter (todo.reverse ++ applied) es) := by
  intro todo
  induction todo with
  | nil => intro applied _; simp [schedOf, applyMeta]
  | cons d rest ih =>
    intro applied hmem
    cases d with
    | dir p m =>
      simp only [schedOf, List.filterMap_cons, applyMeta, List.contains_nil, Bool.false_eq_true, if_false]
      rw [fsSetMeta_after applied es p m (hmem _ (by simp)) hn]
      have := ih (Entry.dir p m :: applied) (fun d hd => hmem d (List.mem_cons_of_mem _ hd))
      simp only [schedOf] at this
      simp only [this]
      simp
    | file p m dd =>
      simp only [schedOf, List.filterMap_cons]
      have := ih applied (fun d hd => hmem d (List.mem_cons_of_mem _ hd))
      simp only [schedOf] at this
      rw [this]
      -- a file entry in `applied` changes nothing
      congr 1
      unfold fsAfter
      apply List.map_congr_left
      intro e he
      by_cases hd : e.isDir = true
      · simp only [hd, Bool.true_and, List.reverse_cons, List.append_assoc, List.any_append, List.any_cons, List.any_nil,
          Bool.or_false, List.cons_append, List.nil_append]
        by_cases h1 : fpOf (Entry.file p m dd : Entry β) = fpOf e
        · -- then `e` would be that file entry, which is not a directory
          have hee : Entry.file p m dd = e := nodup_map_inj fpOf es hn _ _ (hmem _ (by simp)) he h1
          subst hee; cases hd
        · simp [h1]
      · have hd' : e.isDir = false := by simpa using hd
        simp [hd']
    | symlink p m t =>
      simp only [schedOf, List.filterMap_cons]
      have := ih applied (fun d hd => hmem d (List.mem_cons_of_mem _ hd))
      simp only [schedOf] at this
      rw [this]
      congr 1
      unfold fsAfter
      apply List.map_congr_left
      intro e he
      by_cases hd : e.isDir = true
      · simp only [hd, Bool.true_and, List.reverse_cons, List.append_assoc, List.any_append, List.any_cons, List.any_nil,
          Bool.or_false, List.cons_append, List.nil_append]
        by_cases h1 : fpOf (Entry.symlink p m t : Entry β) = fpOf e
        · have hee : Entry.symlink p m t = e := nodup_map_inj fpOf es hn _ _ (hmem _ (by simp)) he h1
          subst hee; cases hd
        · simp [h1]
      · have hd' : e.isDir = false := by simpa using hd
        simp [hd']
    | other p =>
      simp only [schedOf, List.filterMap_cons]
      have := ih applied (fun d hd => hmem d (List.mem_cons_of_mem _ hd))
      simp only [schedOf] at this
      rw [this]
      congr 1
      unfold fsAfter
      apply List.map_congr_left
      intro e he
      by_cases hd : e.isDir = true
      · simp only [hd, Bool.true_and, List.reverse_cons, List.append_assoc, List.any_append, List.any_cons, List.any_nil,
          Bool.or_false, List.cons_append, List.nil_append]
        by_cases h1 : fpOf (Entry.other p : Entry β) = fpOf e
        · have hee : Entry.other p = e := nodup_map_inj fpOf es hn _ _ (hmem _ (by simp)) he h1
          subst hee; cases hd
        · simp [h1]
      · have hd' : e.isDir = false := by simpa using hd
        simp [hd']

end Vsb.Restore

namespace Vsb.Restore
variable {H β : Type} [DecidableEq H]

/-! ### the executable well-formedness check is sound -/

theorem split_snoc {α : Type} (pre : List α) (e : α) (p1 : List α) (x : α) (p2 : List α) (h : pre ++ [e] = p1 ++ x :: p2) :
    (p2 = [] ∧ p1 = pre ∧ x = e) ∨ (∃ q, p2 = q ++ [e] ∧ pre = p1 ++ x :: q) := by
  induction pre generalizing p1 with
  | nil =>
    cases p1 with
    | nil => simp only [List.nil_append, List.cons.injEq] at h; exact Or.inl ⟨h.2.symm, rfl, h.1.symm⟩
    | cons b p1' =>
      simp only [List.nil_append, List.cons_append, List.cons.injEq] at h
      have := h.2
      cases p1' <;> simp at this
  | cons a pre' ih =>
    cases p1 with
    | nil =>
      simp only [List.cons_append, List.nil_append, List.cons.injEq] at h
      exact Or.inr ⟨pre', h.2.symm, by rw [h.1]; rfl⟩
    | cons b p1' =>
      simp only [List.cons_append, List.cons.injEq] at h
      rcases ih p1' h.2 with ⟨h1, h2, h3⟩ | ⟨q, h1, h2⟩
      · exact Or.inl ⟨h1, by rw [h.1, h2], h3⟩
      · exact Or.inr ⟨q, h1, by rw [h.1, h2]; rfl⟩

theorem wfGo_sound (post : List (Entry β)) : ∀ (pre : List (Entry β)) (dirs all : List FPath),
    (∀ x, x ∈ all ↔ x ∈ pre.map fpOf) →
    (∀ x, x ∈ dirs ↔ ∃ d ∈ pre, d.isDir = true ∧ fpOf d = x) →
    WFArchive pre → wfGo dirs all post = true → WFArchive (pre ++ post) := by
  induction post with
  | nil => intro pre dirs all _ _ hpre _; simpa using hpre
  | cons e rest ih =>
    intro pre dirs all hallm hdirs hpre h
    simp only [wfGo, Bool.and_eq_true, Bool.not_eq_true', beq_iff_eq, Bool.or_eq_true, List.contains_iff_mem,
      Bool.not_eq_eq_eq_not, Bool.not_true] at h
    obtain ⟨⟨⟨⟨⟨hno, hpath⟩, hkey⟩, hnew⟩, hpar⟩, hrest⟩ := h
    have hnew' : fpOf e ∉ all := by
      intro hin
      have : all.contains (fpOf e) = true := List.contains_iff_mem.mpr hin
      rw [this] at hnew; cases hnew
    have hstep : WFArchive (pre ++ [e]) := by
      refine ⟨?_, ?_, ?_, ?_, ?_⟩
      · intro x hx
        rcases List.mem_append.mp hx with h1 | h1
        · exact hpre.noOther x h1
        · have : x = e := by simpa using h1
          subst this; exact hno
      · intro x hx
        rcases List.mem_append.mp hx with h1 | h1
        · exact hpre.paths x h1
        · have : x = e := by simpa using h1
          subst this; exact hpath
      · intro x hx
        rcases List.mem_append.mp hx with h1 | h1
        · exact hpre.keys x h1
        · have : x = e := by simpa using h1
          subst this; exact hkey
      · rw [List.map_append, List.nodup_append]
        refine ⟨hpre.nodup, by simp, ?_⟩
        intro a ha b hb
        have hb' : b = fpOf e := by simpa using hb
        subst hb'
        intro heq
        exact hnew' ((hallm _).mpr (heq ▸ ha))
      · intro p1 x p2 hsplit
        rcases split_snoc pre e p1 x p2 hsplit with ⟨_, rfl, rfl⟩ | ⟨q, _, hq⟩
        · rcases hpar with h1 | h1
          · exact Or.inl h1
          · exact Or.inr ((hdirs _).mp h1)
        · exact hpre.parents p1 x q hq
    have hall2 : ∀ x, x ∈ fpOf e :: all ↔ x ∈ (pre ++ [e]).map fpOf := by
      intro x
      rw [List.mem_cons, hallm, List.map_append, List.mem_append]
      simp only [List.map_cons, List.map_nil, List.mem_singleton]
      constructor
      · rintro (h1 | h1); exact Or.inr h1; exact Or.inl h1
      · rintro (h1 | h1); exact Or.inr h1; exact Or.inl h1
    have hdirs2 : ∀ x, x ∈ (if e.isDir then fpOf e :: dirs else dirs) ↔ ∃ d ∈ pre ++ [e], d.isDir = true ∧ fpOf d = x := by
      intro x
      by_cases hd : e.isDir = true
      · rw [if_pos hd, List.mem_cons, hdirs]
        constructor
        · rintro (h1 | ⟨d, hd1, hd2, hd3⟩)
          · exact ⟨e, by simp, hd, h1.symm⟩
          · exact ⟨d, List.mem_append_left _ hd1, hd2, hd3⟩
        · rintro ⟨d, hd1, hd2, hd3⟩
          rcases List.mem_append.mp hd1 with h1 | h1
          · exact Or.inr ⟨d, h1, hd2, hd3⟩
          · have : d = e := by simpa using h1
            subst this; exact Or.inl hd3.symm
      · rw [if_neg hd, hdirs]
        constructor
        · rintro ⟨d, hd1, hd2, hd3⟩; exact ⟨d, List.mem_append_left _ hd1, hd2, hd3⟩
        · rintro ⟨d, hd1, hd2, hd3⟩
          rcases List.mem_append.mp hd1 with h1 | h1
          · exact ⟨d, h1, hd2, hd3⟩
          · have : d = e := by simpa using h1
            subst this; exact absurd hd2 hd
    have := ih (pre ++ [e]) _ _ hall2 hdirs2 hstep hrest
    simpa using this

theorem wfCheck_sound (es : List (Entry β)) (h : wfCheck es = true) : WFArchive es := by
  have := wfGo_sound es [] [] [] (by intro x; simp) (by intro x; simp)
    ⟨(by simp), (by simp), (by simp), (by simp), (by intro p e q h; simp at h)⟩ h
  simpa using this

end Vsb.Restore
