import VsbModel.Lemmas.RestoreGroupOwn
set_option linter.unusedSimpArgs false
set_option linter.unusedSectionVars false
set_option linter.unusedVariables false

/-!
The steps after the target's own: an earlier backup of the group supplies the bytes of files the target
records as `extern`.  Its archive is read once; every entry whose manifest path is in the step's table is
written to all paths of its fan-out and verified.
-/
namespace Vsb.Restore
variable {H β : Type} [DecidableEq H]

/-- The state between steps (and inside a later step).  `Done q`: the extern path `q` has been written. -/
structure SInv (stored : String → Bool) (es : List (Entry β)) (EXT : List String) (Done : String → Prop) (st : RSt β) : Prop where
  ok : st.ok = true
  missing : st.missing = []
  pendNodup : st.pending.Nodup
  pend : ∀ q, q ∈ st.pending ↔ q ∈ EXT ∧ q ∉ st.restored
  restd : ∀ q ∈ st.restored, Done q
  restd' : ∀ q, Done q → q ∈ st.restored
  pc : st.preCreated = []
  sched : st.scheduled = schedT stored es
  fsSome : ∀ q n, fsGet st.fs q = some n → ∃ e ∈ es, fpOf e = q ∧ Present stored es [] st.restored e ∧ n = nodeT stored e
  fsPresent : ∀ e ∈ es, Present stored es [] st.restored e → fsGet st.fs (fpOf e) = some (nodeT stored e)

theorem SInv.congr {stored : String → Bool} {es : List (Entry β)} {EXT : List String} {D D' : String → Prop} {st : RSt β}
    (inv : SInv stored es EXT D st) (h : ∀ q, D q ↔ D' q) : SInv stored es EXT D' st :=
  { ok := inv.ok, missing := inv.missing, pendNodup := inv.pendNodup, pend := inv.pend
    restd := fun q hq => (h q).mp (inv.restd q hq), restd' := fun q hq => inv.restd' q ((h q).mpr hq)
    pc := inv.pc, sched := inv.sched, fsSome := inv.fsSome, fsPresent := inv.fsPresent }

/-- After the target step. -/
theorem SInv.ofT {hashOf : List β → H} {stored : String → Bool} {es : List (Entry β)} {F0 : List (String × RFile H)} {EXT : List String}
    {st : RSt β} {seen : List String} (ctx : TCtx hashOf es stored F0 EXT) (inv : TInv stored es F0 EXT es st seen) :
    SInv stored es EXT (fun q => q ∈ F0.flatMap (fun kv => kv.2.paths.dropLast)) st := by
  have hpc : st.preCreated = [] := by
    apply List.eq_nil_iff_forall_not_mem.mpr
    intro q hq
    obtain ⟨d, hd, hdn, _⟩ := inv.pc q hq
    exact hdn hd
  exact {
    ok := inv.ok, missing := inv.missing, pendNodup := inv.pendNodup, pend := inv.pend
    restd := fun q hq => by
      obtain ⟨a, _, info, hinfo, hq'⟩ := inv.restd q hq
      exact List.mem_flatMap.mpr ⟨(keyE a, info), hinfo, hq'⟩
    restd' := fun q hq => by
      obtain ⟨kv, hkv, hq'⟩ := List.mem_flatMap.mp hq
      obtain ⟨a, ha, _, hk, _⟩ := ctx.f0_keys kv hkv
      have : kv = (keyE a, kv.2) := by rw [← hk]
      exact inv.restd' a ha kv.2 (this ▸ hkv) q hq'
    pc := hpc, sched := inv.sched
    fsSome := fun q n hq => by
      have := inv.fsSome q n hq
      rw [hpc] at this
      exact this
    fsPresent := fun e he hp => by
      have := inv.fsPresent e he
      rw [hpc] at this
      exact this hp }

/-- One path of a fan-out in a later step. -/
theorem later_path (stored : String → Bool) (es : List (Entry β)) (wf : WFArchive es) (EXT : List String) (Done : String → Prop)
    (c : List β) (src : String) (q : String) (tail : List String)
    (b : Entry β) (hb : b ∈ es) (hbext : isExtE stored b = true) (hbq : keyE b = q) (hbc : contentE b = c)
    (hqext : q ∈ EXT) (hnd : ¬ Done q) (st : RSt β) (inv : SInv stored es EXT Done st) :
    ∃ st', createFiles c src false (q :: tail) st = createFiles c src false tail st' ∧
      SInv stored es EXT (fun x => Done x ∨ x = q) st' := by
  have hmp : manifestPathToFile q = some (fpOf b) := by rw [← hbq]; exact wf.keys b hb
  have hqnr : q ∉ st.restored := fun h => hnd (inv.restd q h)
  have hpend : st.pending.contains q = true := by
    have := (inv.pend q).mpr ⟨hqext, hqnr⟩
    simpa using this
  rw [createFiles]
  simp only [hmp, Bool.false_and, Bool.not_false, hpend, Bool.not_true, Bool.false_eq_true, if_false]
  have hfree : fsGet st.fs (fpOf b) = none := by
    cases hg : fsGet st.fs (fpOf b) with
    | none => rfl
    | some n =>
      obtain ⟨e', he', hfe, hp, _⟩ := inv.fsSome _ n hg
      have : e' = b := entry_of_fp es wf e' b he' hb hfe
      subst this
      cases e' with
      | file p' m' d' =>
        simp only [Present, hbext, if_true] at hp
        rw [hbq] at hp
        exact absurd hp hqnr
      | dir p' m' => cases hbext
      | symlink p' m' t' => cases hbext
      | other p' => cases hbext
  have hbne : fpOf b ≠ [] := tarPathToFile_ne_nil _ _ (wf.paths b hb)
  have hpar : parentOk st.fs (fpOf b) = true := by
    apply parentOk_of_dir
    obtain ⟨pre, post, hsplit⟩ := List.append_of_mem hb
    rcases wf.parents pre b post hsplit with h | ⟨d0, hd0, hdir0, hfp0⟩
    · exact Or.inl h
    · right
      have hd0es : d0 ∈ es := by rw [hsplit]; exact List.mem_append_left _ hd0
      have hp : Present stored es [] st.restored d0 := by
        cases d0 with
        | dir p' m' => exact Or.inl hd0es
        | file p' m' dd => cases hdir0
        | symlink p' m' t' => cases hdir0
        | other p' => cases hdir0
      have := inv.fsPresent d0 hd0es hp
      rw [hfp0] at this
      cases d0 with
      | dir p' m' => exact ⟨none, this⟩
      | file p' m' dd => cases hdir0
      | symlink p' m' t' => cases hdir0
      | other p' => cases hdir0
  obtain ⟨fs2, hc, hview⟩ := fsCreate_ok st.fs (fpOf b) (.file c none) hfree hpar hbne
  simp only [hc]
  refine ⟨_, rfl, ?_⟩
  have hnodeb : nodeT stored b = .file c none := by
    cases b with
    | file p' m' d' =>
      simp only [nodeT, hbext, if_true]
      rw [show d' = c from hbc]
    | dir p' m' => cases hbext
    | symlink p' m' t' => cases hbext
    | other p' => cases hbext
  have hpmono : ∀ e, Present stored es [] st.restored e → Present stored es [] (st.restored ++ [q]) e :=
    fun e h => present_mono stored es _ _ _ _ (fun x hx => hx) (fun x hx => List.mem_append_left _ hx) e h
  exact {
    ok := inv.ok, missing := inv.missing
    pendNodup := inv.pendNodup.erase _
    pend := fun q' => by
      simp only []
      rw [List.Nodup.mem_erase_iff inv.pendNodup, inv.pend q']
      simp only [List.mem_append, List.mem_singleton, not_or]
      constructor
      · rintro ⟨h1, h2, h3⟩; exact ⟨h2, h3, h1⟩
      · rintro ⟨h2, h3, h1⟩; exact ⟨h1, h2, h3⟩
    restd := fun q' hq' => by
      rcases List.mem_append.mp hq' with h | h
      · exact Or.inl (inv.restd q' h)
      · exact Or.inr (List.mem_singleton.mp h)
    restd' := fun q' hq' => by
      rcases hq' with h | h
      · exact List.mem_append_left _ (inv.restd' q' h)
      · exact List.mem_append_right _ (List.mem_singleton.mpr h)
    pc := by simp [inv.pc]
    sched := inv.sched
    fsSome := fun q' n hq' => by
      rw [hview q'] at hq'
      by_cases h1 : q' = fpOf b
      · simp only [h1, if_true, Option.some.injEq] at hq'
        refine ⟨b, hb, h1.symm, ?_, by rw [hnodeb]; exact hq'.symm⟩
        cases b with
        | file p' m' d' => simp only [Present, hbext, if_true, hbq]; simp
        | dir p' m' => cases hbext
        | symlink p' m' t' => cases hbext
        | other p' => cases hbext
      · simp only [h1, if_false] at hq'
        obtain ⟨e, hee, hfe, hp, hn⟩ := inv.fsSome q' n hq'
        exact ⟨e, hee, hfe, hpmono e hp, hn⟩
    fsPresent := fun e hee hp => by
      rw [hview]
      by_cases heb : e = b
      · subst heb
        simp only [if_true, hnodeb]
      · have hfne : fpOf e ≠ fpOf b := fun h => heb (entry_of_fp es wf e b hee hb h)
        simp only [hfne, if_false]
        apply inv.fsPresent e hee
        cases e with
        | dir p' m' => exact hp
        | symlink p' m' t' => exact hp
        | file p' m' d' =>
          simp only [Present] at hp ⊢
          split
          · rename_i hx
            rw [if_pos hx] at hp
            rcases List.mem_append.mp hp with h | h
            · exact h
            · simp only [List.mem_singleton] at h
              exfalso
              exact heb (keyE_inj es wf _ b hee hb (h.trans hbq.symm))
          · rename_i hx
            rw [if_neg hx] at hp
            exact hp
        | other p' => exact hp }

/-- All paths of a fan-out in a later step. -/
theorem later_paths (stored : String → Bool) (es : List (Entry β)) (wf : WFArchive es) (EXT : List String)
    (c : List β) (src : String) :
    ∀ (qs : List String) (Done : String → Prop) (st : RSt β), qs.Nodup →
      (∀ q ∈ qs, ¬ Done q ∧ q ∈ EXT ∧ ∃ b ∈ es, isExtE stored b = true ∧ keyE b = q ∧ contentE b = c) →
      SInv stored es EXT Done st →
      ∃ st', createFiles c src false qs st = some st' ∧ SInv stored es EXT (fun x => Done x ∨ x ∈ qs) st' := by
  intro qs
  induction qs with
  | nil =>
    intro Done st _ _ inv
    exact ⟨st, rfl, inv.congr (fun q => by simp)⟩
  | cons q rest ih =>
    intro Done st hn hfacts inv
    obtain ⟨hnd, hqext, b, hb, hbext, hbq, hbc⟩ := hfacts q (by simp)
    obtain ⟨st1, h1, inv1⟩ := later_path stored es wf EXT Done c src q rest b hb hbext hbq hbc hqext hnd st inv
    simp only [List.nodup_cons] at hn
    obtain ⟨st2, h2, inv2⟩ := ih (fun x => Done x ∨ x = q) st1 hn.2 (by
      intro q' hq'
      obtain ⟨h1', h2', h3'⟩ := hfacts q' (List.mem_cons_of_mem _ hq')
      refine ⟨?_, h2', h3'⟩
      rintro (h | h)
      · exact h1' h
      · subst h; exact hn.1 hq') inv1
    refine ⟨st2, by rw [h1, h2], inv2.congr ?_⟩
    intro x
    simp only [List.mem_cons]
    constructor
    · rintro ((h | h) | h)
      · exact Or.inl h
      · exact Or.inr (Or.inl h)
      · exact Or.inr (Or.inr h)
    · rintro (h | h | h)
      · exact Or.inl (Or.inl h)
      · exact Or.inl (Or.inr h)
      · exact Or.inr h

theorem mem_of_mapGet {V : Type} (m : List (String × V)) (k : String) (v : V) (h : mapGet m k = some v) : (k, v) ∈ m := by
  unfold mapGet at h
  cases hf : m.find? (fun e => e.1 = k) with
  | none => simp [hf] at h
  | some e =>
    simp only [hf, Option.map_some, Option.some.injEq] at h
    have hm := List.mem_of_find?_eq_some hf
    have hk := List.find?_some hf
    simp only [decide_eq_true_eq] at hk
    rw [← hk, ← h]
    exact hm

/-- What the plan's table for a later step looks like. -/
structure LStep (hashOf : List β → H) (stored : String → Bool) (es : List (Entry β)) (EXT : List String)
    (lb : LBackup β) (files : List (String × RFile H)) : Prop where
  wfj : WFArchive lb.es
  keysNodup : (files.map (·.1)).Nodup
  fkeys : ∀ kv ∈ files, ∃ a ∈ lb.es, (∃ p m d, a = .file p m d ∧ lb.stored p = true) ∧ kv.1 = keyE a ∧
      kv.2.hash = hashOf (contentE a) ∧ kv.2.size = (contentE a).length ∧
      ∀ q ∈ kv.2.paths, q ∈ EXT ∧ ∃ b ∈ es, isExtE stored b = true ∧ keyE b = q ∧ contentE b = contentE a
  innerNodup : (files.flatMap (·.2.paths)).Nodup

def DoneJ (D0 : String → Prop) (files : List (String × RFile H)) (pre : List (Entry β)) : String → Prop :=
  fun x => D0 x ∨ ∃ a ∈ pre, ∃ info, (keyE a, info) ∈ files ∧ x ∈ info.paths

def SeenJ (files : List (String × RFile H)) (pre : List (Entry β)) (seen : List String) : Prop :=
  ∀ a ∈ pre, (∃ info, (keyE a, info) ∈ files) → keyE a ∈ seen

theorem doneJ_snoc_skip (D0 : String → Prop) (files : List (String × RFile H)) (pre : List (Entry β)) (e : Entry β)
    (h : ∀ info, (keyE e, info) ∉ files) (x : String) : DoneJ D0 files pre x ↔ DoneJ D0 files (pre ++ [e]) x := by
  unfold DoneJ
  constructor
  · rintro (h0 | ⟨a, ha, r⟩)
    · exact Or.inl h0
    · exact Or.inr ⟨a, List.mem_append_left _ ha, r⟩
  · rintro (h0 | ⟨a, ha, info, hi, r⟩)
    · exact Or.inl h0
    · rcases List.mem_append.mp ha with ha | ha
      · exact Or.inr ⟨a, ha, info, hi, r⟩
      · simp only [List.mem_singleton] at ha
        subst ha
        exact absurd hi (h info)

theorem seenJ_snoc_skip (files : List (String × RFile H)) (pre : List (Entry β)) (e : Entry β) (seen : List String)
    (h : ∀ info, (keyE e, info) ∉ files) (hs : SeenJ files pre seen) : SeenJ files (pre ++ [e]) seen := by
  intro a ha hinfo
  rcases List.mem_append.mp ha with ha | ha
  · exact hs a ha hinfo
  · simp only [List.mem_singleton] at ha
    subst ha
    obtain ⟨info, hi⟩ := hinfo
    exact absurd hi (h info)

/-- One entry of an earlier backup's archive. -/
theorem later_entry (hashOf : List β → H) (stored : String → Bool) (es : List (Entry β)) (wf : WFArchive es) (EXT : List String)
    (lb : LBackup β) (files : List (String × RFile H)) (ls : LStep hashOf stored es EXT lb files)
    (D0 : String → Prop) (hD0 : ∀ kv ∈ files, ∀ q ∈ kv.2.paths, ¬ D0 q)
    (pre : List (Entry β)) (e : Entry β) (post : List (Entry β)) (hs : lb.es = pre ++ e :: post)
    (st : RSt β) (seen : List String) (inv : SInv stored es EXT (DoneJ D0 files pre) st) (hseen : SeenJ files pre seen) :
    ∃ st' seen', processEntry hashOf files false st seen (stripE lb.stored lb.pad e) = some (st', seen') ∧
      SInv stored es EXT (DoneJ D0 files (pre ++ [e])) st' ∧ SeenJ files (pre ++ [e]) seen' := by
  have wfj := ls.wfj
  have he : e ∈ lb.es := by rw [hs]; simp
  have hpre : ∀ x ∈ pre, x ∈ lb.es := fun x hx => by rw [hs]; exact List.mem_append_left _ hx
  obtain ⟨hnotin, _⟩ := split_notin lb.es wfj pre e post hs
  have hpath := wfj.paths e he
  -- a table entry for this path can only belong to this very entry
  have hkeyent : ∀ info, (keyE e, info) ∈ files → ∃ p m d, e = .file p m d ∧ lb.stored p = true ∧
      info.hash = hashOf d ∧ info.size = d.length ∧
      ∀ q ∈ info.paths, q ∈ EXT ∧ ∃ b ∈ es, isExtE stored b = true ∧ keyE b = q ∧ contentE b = d := by
    intro info hi
    obtain ⟨a, ha, ⟨p, m, d, hae, hst⟩, hk, hh, hsz, hq⟩ := ls.fkeys _ hi
    have : a = e := keyE_inj lb.es wfj a e ha he hk.symm
    subst this
    subst hae
    exact ⟨p, m, d, rfl, hst, hh, hsz, hq⟩
  cases e with
  | other p => have := wfj.noOther (.other p) he; cases this
  | dir p m =>
    simp only [Entry.path] at hpath
    have hno : ∀ info, (keyE (.dir p m : Entry β), info) ∉ files := by
      intro info hi
      obtain ⟨p', m', d', h, _⟩ := hkeyent info hi
      cases h
    refine ⟨st, seen, by simp [stripE, processEntry, hpath], inv.congr (doneJ_snoc_skip D0 files pre _ hno), seenJ_snoc_skip files pre _ seen hno hseen⟩
  | symlink p m t =>
    simp only [Entry.path] at hpath
    have hno : ∀ info, (keyE (.symlink p m t : Entry β), info) ∉ files := by
      intro info hi
      obtain ⟨p', m', d', h, _⟩ := hkeyent info hi
      cases h
    refine ⟨st, seen, by simp [stripE, processEntry, hpath], inv.congr (doneJ_snoc_skip D0 files pre _ hno), seenJ_snoc_skip files pre _ seen hno hseen⟩
  | file p m d =>
    simp only [Entry.path] at hpath
    have hk : ("/" ++ "/".intercalate (fpOf (Entry.file p m d : Entry β))) = keyE (Entry.file p m d : Entry β) := rfl
    have hfp' : ∀ x : List β, fpOf (Entry.file p m x : Entry β) = fpOf (Entry.file p m d : Entry β) := fun _ => rfl
    cases hget : mapGet files (keyE (Entry.file p m d : Entry β)) with
    | none =>
      have hno : ∀ info, (keyE (.file p m d : Entry β), info) ∉ files := by
        intro info hi
        have := mapGet_of_mem files ls.keysNodup _ _ hi
        rw [hget] at this
        cases this
      refine ⟨st, seen, ?_, inv.congr (doneJ_snoc_skip D0 files pre _ hno), seenJ_snoc_skip files pre _ seen hno hseen⟩
      simp only [stripE, processEntry, hpath, hfp', hk, hget]
      simp
    | some info =>
      have hi := mem_of_mapGet files _ _ hget
      obtain ⟨p', m', d', hee, hst, hh, hsz, hq⟩ := hkeyent info hi
      cases hee
      obtain ⟨tail, htail⟩ := padded_eq lb.pad p d
      simp only [stripE, hst, if_true, htail, processEntry, hpath, hk, hget]
      unfold restoreFiles
      have htake : (d ++ tail).take info.size = d := by rw [hsz]; simp
      rw [htake]
      have hinner : info.paths.Nodup :=
        nodup_flatMap_inner (fun kv : String × RFile H => kv.2.paths) files ls.innerNodup _ hi
      obtain ⟨st1, h1, inv1⟩ := later_paths stored es wf EXT d (keyE (Entry.file p m d : Entry β)) info.paths
        (DoneJ D0 files pre) st hinner (by
          intro q hqin
          obtain ⟨h2, h3⟩ := hq q hqin
          refine ⟨?_, h2, h3⟩
          rintro (h0 | ⟨a', ha', info', hi', hq'⟩)
          · exact hD0 _ hi q hqin h0
          · have hkv := nodup_flatMap_disjoint (fun kv : String × RFile H => kv.2.paths) files ls.innerNodup
              (keyE a', info') (keyE (Entry.file p m d : Entry β), info) hi' hi q hq' hqin
            have hk' : keyE a' = keyE (Entry.file p m d : Entry β) := congrArg Prod.fst hkv
            have : a' = .file p m d := keyE_inj lb.es wfj a' _ (hpre a' ha') he hk'
            exact hnotin (this ▸ ha')) inv
      rw [h1]
      have hlen : ¬ ((d ++ tail).length < info.size) := by rw [hsz, List.length_append]; omega
      have hhh : ¬ (hashOf d ≠ info.hash) := by rw [hh]; simp
      simp only [hlen, hhh, if_false, Bool.false_and, Bool.false_eq_true, Option.map_some]
      refine ⟨_, _, rfl, inv1.congr ?_, ?_⟩
      · intro x
        unfold DoneJ
        constructor
        · rintro ((h0 | ⟨a, ha, r⟩) | h)
          · exact Or.inl h0
          · exact Or.inr ⟨a, List.mem_append_left _ ha, r⟩
          · exact Or.inr ⟨.file p m d, by simp, info, hi, h⟩
        · rintro (h0 | ⟨a, ha, info', hi', r⟩)
          · exact Or.inl (Or.inl h0)
          · rcases List.mem_append.mp ha with ha | ha
            · exact Or.inl (Or.inr ⟨a, ha, info', hi', r⟩)
            · simp only [List.mem_singleton] at ha
              subst ha
              have : info' = info := by
                have h1 := mapGet_of_mem files ls.keysNodup _ _ hi'
                rw [hget] at h1
                exact (Option.some.inj h1).symm
              subst this
              exact Or.inr r
      · intro a ha hinfo
        rcases List.mem_append.mp ha with ha | ha
        · exact List.mem_append_left _ (hseen a ha hinfo)
        · simp only [List.mem_singleton] at ha
          subst ha
          simp

/-- The loop over the entries of an earlier backup's archive. -/
theorem later_entries (hashOf : List β → H) (stored : String → Bool) (es : List (Entry β)) (wf : WFArchive es) (EXT : List String)
    (lb : LBackup β) (files : List (String × RFile H)) (ls : LStep hashOf stored es EXT lb files)
    (D0 : String → Prop) (hD0 : ∀ kv ∈ files, ∀ q ∈ kv.2.paths, ¬ D0 q) :
    ∀ (post pre : List (Entry β)) (st : RSt β) (seen : List String), lb.es = pre ++ post →
      SInv stored es EXT (DoneJ D0 files pre) st → SeenJ files pre seen →
      ∃ st' seen', processEntries hashOf files false (post.map (stripE lb.stored lb.pad)) st seen = some (st', seen') ∧
        SInv stored es EXT (DoneJ D0 files lb.es) st' ∧ SeenJ files lb.es seen' := by
  intro post
  induction post with
  | nil =>
    intro pre st seen hs inv hseen
    simp only [List.append_nil] at hs
    rw [hs]
    exact ⟨st, seen, rfl, inv, hseen⟩
  | cons e rest ih =>
    intro pre st seen hs inv hseen
    obtain ⟨st1, seen1, h1, inv1, hseen1⟩ := later_entry hashOf stored es wf EXT lb files ls D0 hD0 pre e rest hs st seen inv hseen
    simp only [List.map_cons, processEntries, h1]
    exact ih (pre ++ [e]) st1 seen1 (by rw [hs]; simp) inv1 hseen1

theorem rst_ok_eta (st : RSt β) (b : Bool) (h : st.ok = true) (hb : b = true) : ({ st with ok := st.ok && b } : RSt β) = st := by
  cases st
  simp_all

/-- A whole later step. -/
theorem later_step (hashOf : List β → H) (stored : String → Bool) (es : List (Entry β)) (wf : WFArchive es) (EXT : List String)
    (lb : LBackup β) (j : Nat) (files : List (String × RFile H)) (ls : LStep hashOf stored es EXT lb files)
    (D0 : String → Prop) (hD0 : ∀ kv ∈ files, ∀ q ∈ kv.2.paths, ¬ D0 q)
    (st : RSt β) (inv : SInv stored es EXT D0 st) :
    ∃ st', processStep hashOf (render hashOf lb) ⟨j, files⟩ false st = some st' ∧
      SInv stored es EXT (fun x => D0 x ∨ ∃ kv ∈ files, x ∈ kv.2.paths) st' := by
  have inv0 : SInv stored es EXT (DoneJ D0 files ([] : List (Entry β))) st := inv.congr (fun q => by simp [DoneJ])
  obtain ⟨st1, seen1, h1, inv1, hseen1⟩ := later_entries hashOf stored es wf EXT lb files ls D0 hD0 lb.es [] st [] rfl inv0
    (fun a ha => by cases ha)
  unfold processStep
  simp only [render, h1, Bool.not_true, Bool.false_eq_true, if_false]
  have hall : files.all (fun f => seen1.contains f.1) = true := by
    rw [List.all_eq_true]
    intro kv hkv
    obtain ⟨a, ha, _, hk, _⟩ := ls.fkeys kv hkv
    have := hseen1 a ha ⟨kv.2, by rw [← hk]; exact hkv⟩
    rw [hk]
    simpa using this
  rw [rst_ok_eta st1 _ inv1.ok hall]
  refine ⟨st1, rfl, inv1.congr ?_⟩
  intro x
  unfold DoneJ
  constructor
  · rintro (h | ⟨a, _, info, hi, hx⟩)
    · exact Or.inl h
    · exact Or.inr ⟨(keyE a, info), hi, hx⟩
  · rintro (h | ⟨kv, hkv, hx⟩)
    · exact Or.inl h
    · obtain ⟨a, ha, _, hk, _⟩ := ls.fkeys kv hkv
      exact Or.inr ⟨a, ha, kv.2, by rw [← hk]; exact hkv, hx⟩

/-- `q` was written by the target step or by one of the steps `sdone`. -/
def DoneS (F0 : List (String × RFile H)) (sdone : List (Step H)) : String → Prop :=
  fun x => x ∈ F0.flatMap (fun kv => kv.2.paths.dropLast) ∨ ∃ s ∈ sdone, ∃ kv ∈ s.files, x ∈ kv.2.paths

/-- The loop over the later steps. -/
theorem later_steps (hashOf : List β → H) (stored : String → Bool) (es : List (Entry β)) (wf : WFArchive es) (EXT : List String)
    (lg : List (LBackup β)) (group : List (Backup H β))
    (hG : ∀ (j : Nat) (lb : LBackup β), lg[j]? = some lb → group[j]? = some (render hashOf lb))
    (F0 : List (String × RFile H)) (rest : List (Step H))
    (hsteps : ∀ s ∈ rest, ∃ lb, lg[s.backup]? = some lb ∧ LStep hashOf stored es EXT lb s.files)
    (hnodup : (F0.flatMap (fun kv => kv.2.paths.dropLast) ++ rest.flatMap (fun s => s.files.flatMap (·.2.paths))).Nodup) :
    ∀ (todo sdone : List (Step H)) (st : RSt β), rest = sdone ++ todo → SInv stored es EXT (DoneS F0 sdone) st →
      ∃ st', runSteps hashOf group todo false st = some st' ∧ SInv stored es EXT (DoneS F0 rest) st' := by
  intro todo
  induction todo with
  | nil =>
    intro sdone st hr inv
    simp only [List.append_nil] at hr
    subst hr
    exact ⟨st, rfl, inv⟩
  | cons s todo' ih =>
    intro sdone st hr inv
    have hsin : s ∈ rest := by rw [hr]; simp
    obtain ⟨lb, hlb, ls⟩ := hsteps s hsin
    have hgrp : group[s.backup]? = some (render hashOf lb) := hG _ _ hlb
    have hd := List.nodup_append.mp hnodup
    have hD0 : ∀ kv ∈ s.files, ∀ q ∈ kv.2.paths, ¬ DoneS F0 sdone q := by
      intro kv hkv q hq
      have hqs : q ∈ s.files.flatMap (·.2.paths) := List.mem_flatMap.mpr ⟨kv, hkv, hq⟩
      rintro (h | ⟨s', hs', kv', hkv', hq'⟩)
      · exact hd.2.2 q h q (List.mem_flatMap.mpr ⟨s, hsin, hqs⟩) rfl
      · have h2 := hd.2.1
        rw [hr, List.flatMap_append, List.flatMap_cons] at h2
        have h3 := List.nodup_append.mp h2
        have hin1 : q ∈ sdone.flatMap (fun s => s.files.flatMap (·.2.paths)) :=
          List.mem_flatMap.mpr ⟨s', hs', List.mem_flatMap.mpr ⟨kv', hkv', hq'⟩⟩
        exact h3.2.2 q hin1 q (List.mem_append_left _ hqs) rfl
    obtain ⟨st1, h1, inv1⟩ := later_step hashOf stored es wf EXT lb s.backup s.files ls (DoneS F0 sdone) hD0 st inv
    have hseta : (⟨s.backup, s.files⟩ : Step H) = s := by cases s; rfl
    rw [hseta] at h1
    simp only [runSteps, hgrp, h1]
    apply ih (sdone ++ [s]) st1 (by rw [hr]; simp)
    apply inv1.congr
    intro x
    unfold DoneS
    constructor
    · rintro ((h | ⟨s', hs', r⟩) | h)
      · exact Or.inl h
      · exact Or.inr ⟨s', List.mem_append_left _ hs', r⟩
      · exact Or.inr ⟨s, by simp, h⟩
    · rintro (h | ⟨s', hs', r⟩)
      · exact Or.inl (Or.inl h)
      · rcases List.mem_append.mp hs' with h | h
        · exact Or.inl (Or.inr ⟨s', h, r⟩)
        · simp only [List.mem_singleton] at h
          subst h
          exact Or.inr r

end Vsb.Restore
