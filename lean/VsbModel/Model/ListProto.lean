import VsbModel.Model.Proto

/-
M14c — the providers' `ReadProvider::list_directory` (providers/dropbox.rs, yandex_disk.rs, google_drive.rs):
a directory is listed page by page (Dropbox cursor / `has_more`, Yandex `offset` / `total`, Google
`nextPageToken`); the server answers the k-th request as the script says.  A listing is either complete or an
error — never a partial listing reported as success.
-/
namespace Vsb.ListProto
open Vsb.Proto

inductive Res (α : Type) where
  | ok (entries : List α) (requests : Nat)
  | notFound (requests : Nat)          -- `Ok(None)`: the directory does not exist
  | err (requests : Nat)
  deriving Repr, DecidableEq

/-- The paging loop shared by the three providers: the server returns `pageSize` entries from `off`; the client
stops when the server says there is no more (`off + pageSize ≥ length`), gives up after `limit` pages
(`none` = no limit), and fails on any unusable reply.  `k` counts requests. -/
def pagedLoop {α : Type} (pageSize : Nat) (limit : Option Nat) (script : Nat → Resp) (l : List α) :
    Nat → Nat → Nat → Nat → List α → Res α
  | 0, _, _, k, _ => .err k
  | fuel+1, off, page, k, acc =>
    if !(script k).good then .err (k+1)
    else
      let acc' := acc ++ (l.drop off).take pageSize
      if off + pageSize ≥ l.length then .ok acc' (k+1)
      else match limit with
        | some lim => if page ≥ lim then .err (k+1) else pagedLoop pageSize limit script l fuel (off + pageSize) (page+1) (k+1) acc'
        | none => pagedLoop pageSize limit script l fuel (off + pageSize) (page+1) (k+1) acc'

/-- Dropbox: `list_folder`, then `list_folder/continue` while `has_more`; at most 1000 pages; a `path/not_found`
error of the first request means "no such directory". -/
def dropboxList {α : Type} (pageSize : Nat) (script : Nat → Resp) (dir : Option (List α)) : Res α :=
  match dir with
  | none => if (script 0).performed then .notFound 1 else .err 1
  | some l => pagedLoop pageSize (some 1000) script l (l.length + 1) 0 1 0 []

/-- Yandex Disk: `GET resources?offset=`, until `offset ≥ total`; `DiskNotFoundError` means "no such directory". -/
def yandexList {α : Type} (pageSize : Nat) (script : Nat → Resp) (dir : Option (List α)) : Res α :=
  match dir with
  | none => if (script 0).performed then .notFound 1 else .err 1
  | some l => pagedLoop pageSize none script l (l.length + 1) 0 1 0 []

/-- Google Drive `list_children` of a known folder id: pages linked by `nextPageToken`, at most 1000. -/
def googleChildren {α : Type} (pageSize : Nat) (script : Nat → Resp) (k0 : Nat) (l : List α) : Res α :=
  pagedLoop pageSize (some 1000) script l (l.length + 1) 0 1 k0 []

end Vsb.ListProto
