/-
M7 (listing part) — model of `storage/backup_group.rs::{BackupGroup::list, BackupGroup::read}`,
`storage/backup.rs::Backup::read` and the name regexes of `storage/traits.rs`, over an abstract
directory listing (what `ReadProvider::list_directory` returns).

Domain restriction: `\d` is taken as ASCII digit (the Rust `regex` crate's `\d` also matches other
Unicode decimal digits; generators avoid them).
-/
namespace Vsb.Listing

inductive FType where
  | file | dir | other
  deriving Repr, DecidableEq

def isDigit (c : Char) : Bool := '0' ≤ c && c ≤ '9'

/-- Match against a fixed-width pattern: `d` stands for one digit, anything else for itself. -/
def matchPat : List Char → List Char → Bool
  | [], [] => true
  | p :: ps, c :: cs => (if p = 'd' then isDigit c else p = c) && matchPat ps cs
  | _, _ => false

def groupPat : List Char := "dddd.dd.dd".toList
def backupPat : List Char := "dddd.dd.dd-dd:dd:dd".toList

/-- `group_name_regex` = `^\d{4}\.\d{2}\.\d{2}$` -/
def isGroupName (s : String) : Bool := matchPat groupPat s.toList

/-- `name_regex` = `^(?P<name>\d{4}\.\d{2}\.\d{2}-\d{2}:\d{2}:\d{2})<ext>$`: returns the captured name. -/
def captureBackupName (ext : String) (s : String) : Option String :=
  let cs := s.toList
  let n := backupPat.length
  if matchPat backupPat (cs.take n) && cs.drop n == ext.toList then some (String.ofList (cs.take n)) else none

/-- Per-provider `BackupTraits`. -/
structure Traits where
  fileType : FType          -- Directory for the local storage, File for clouds
  ext : String              -- "" or ".tar.gpg"
  deriving Repr

def localTraits : Traits := ⟨.dir, ""⟩
def cloudTraits : Traits := ⟨.file, ".tar.gpg"⟩

/-- What `list_directory` of a backup directory shows (only the `File`-typed entries matter);
`none` = the directory could not be listed / does not exist. -/
abbrev BackupFiles := Option (List (String × FType))

structure GEntry where
  name : String
  type : FType
  files : BackupFiles := some []
  deriving Repr

structure REntry where
  name : String
  type : FType
  entries : Option (List GEntry) := some []   -- `none`: the group directory cannot be listed
  deriving Repr

structure Group where
  name : String
  backups : List String := []
  temps : List String := []
  deriving Repr, DecidableEq

/-- Classes of log lines the listing emits (message text is not compared). -/
inductive Log where
  | unexpectedInRoot (name : String)
  | unexpectedInGroup (group name : String)
  | temporary (group name : String)
  | suspiciousFirst (group name : String)
  | backupReadError (group name : String)
  deriving Repr, DecidableEq

def Log.isError : Log → Bool
  | .temporary _ _ => false
  | _ => true

/-- `Backup::read(.., archive = false)`: both files must be present as regular files. -/
def backupReadable (files : BackupFiles) : Bool :=
  match files with
  | none => false
  | some fs =>
    let regular := fs.filter (fun f => f.2 == .file)
    regular.any (fun f => f.1 == "data.tar.zst") && regular.any (fun f => f.1 == "metadata.zst")

def stripDot (s : String) : Option String :=
  match s.toList with
  | '.' :: rest => some (String.ofList rest)
  | _ => none

structure ReadSt where
  group : Group
  ok : Bool := true
  first : Bool := true
  logs : List Log := []

/-- One iteration of the loop in `BackupGroup::read` (non-strict). -/
def readEntry (t : Traits) (st : ReadSt) (e : GEntry) : ReadSt :=
  let (stripped, temporary) := match stripDot e.name with
    | some s => (s, true)
    | none => (e.name, false)
  match captureBackupName t.ext stripped with
  | some bname =>
    if e.type = t.fileType then
      if temporary then
        { st with group := { st.group with temps := st.group.temps ++ [bname] },
                  logs := st.logs ++ [.temporary st.group.name bname] }
      else
        -- first backup must bear the group's date
        let datePart := String.ofList (bname.toList.takeWhile (· ≠ '-'))
        let (ok1, logs1) := if st.first && datePart ≠ st.group.name
          then (false, st.logs ++ [.suspiciousFirst st.group.name bname]) else (st.ok, st.logs)
        let readable := if t.fileType = .dir then backupReadable e.files else true
        if readable then
          { st with group := { st.group with backups := st.group.backups ++ [bname] },
                    ok := ok1, first := false, logs := logs1 }
        else
          { st with ok := false, first := false, logs := logs1 ++ [.backupReadError st.group.name bname] }
    else
      { st with ok := false, logs := st.logs ++ [.unexpectedInGroup st.group.name e.name] }
  | none =>
    if e.name.toList.head? = some '.' then st   -- hidden file
    else { st with ok := false, logs := st.logs ++ [.unexpectedInGroup st.group.name e.name] }

/-- Insertion sort by name (`files.sort_by(|a, b| a.name.cmp(&b.name))`; code-point order of Lean
strings = byte order of UTF-8). -/
def insertBy {α} (key : α → String) (x : α) : List α → List α
  | [] => [x]
  | y :: ys => if key x < key y then x :: y :: ys else y :: insertBy key x ys

def sortBy {α} (key : α → String) (l : List α) : List α := l.foldr (insertBy key) []

/-- `BackupGroup::read` (non-strict): group, ok, logs. -/
def readGroup (t : Traits) (name : String) (entries : List GEntry) : Group × Bool × List Log :=
  let st := (sortBy (·.name) entries).foldl (readEntry t) { group := { name := name } }
  (st.group, st.ok, st.logs)

inductive ListRes where
  | ok (groups : List Group) (ok : Bool) (logs : List Log)
  | err      -- a group directory could not be listed
  deriving Repr

/-- `BackupGroup::list`. -/
def listRoot (t : Traits) (root : List REntry) : ListRes :=
  let rec go : List REntry → List Group → Bool → List Log → ListRes
    | [], gs, ok, logs => .ok gs ok logs
    | e :: rest, gs, ok, logs =>
      if e.name.toList.head? = some '.' then go rest gs ok logs
      else if e.type ≠ .dir || !isGroupName e.name then
        go rest gs false (logs ++ [.unexpectedInRoot e.name])
      else match e.entries with
        | none => .err
        | some es =>
          let (g, gok, glogs) := readGroup t e.name es
          go rest (gs ++ [g]) (ok && gok) (logs ++ glogs)
  go (sortBy (·.name) root) [] true []

end Vsb.Listing
