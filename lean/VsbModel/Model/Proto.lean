/-
M14 — the upload protocols of the three cloud providers (`UploadProvider::upload_file` of
`providers/dropbox.rs`, `providers/yandex_disk.rs`, `providers/google_drive.rs`) against an abstract
server holding one directory (the cloud backup group): file name ↦ content.

The client consumes what the stream splitter delivers (request bodies, then exactly one of
finalisation / error / hang-up) and issues requests; the environment chooses, per request index, how
the server reacts (`Resp`).  The result records whether `upload_file` returned `Ok`, the server state,
the request classes in order, and which content — if any — received the final name.
-/
namespace Vsb.Proto

abbrev Name := String

/-- How the server side reacts to the k-th request of the conversation. -/
inductive Resp where
  | ok        -- performed, well-formed reply
  | reject    -- not performed: error status, connection reset before or inside the body
  | lost      -- performed, but the reply is unusable for the client (malformed JSON, missing header)
  | corrupt   -- performed with altered bytes (data-carrying requests), reply well-formed
  | pending   -- operation poll: "in-progress" (as `ok` elsewhere)
  | opFailed  -- operation poll: "failed" (as `ok` elsewhere)
  deriving Repr, DecidableEq

/-- Did the client get a usable success reply? -/
def Resp.good : Resp → Bool
  | .reject | .lost => false
  | _ => true

/-- Was the request performed by the server? -/
def Resp.performed : Resp → Bool
  | .reject => false
  | _ => true

/-- How the chunk-stream conversation ends (stream_splitter.rs). -/
inductive Ending (H : Type) where
  | final (total : Nat) (checksum : H)   -- `ChunkStream::EofWithCheckSum`
  | error                                 -- `Err(msg)`
  | hangup                                -- sender closed without a termination message
  deriving Repr

structure Srv (β : Type) where
  ns : List (Name × List β)       -- the group directory
  session : List β := []          -- Dropbox upload session (not part of the namespace)
  deriving Repr

def isTemp (n : Name) : Bool := n.toList.head? = some '.'

def nsHas {β} (ns : List (Name × List β)) (n : Name) : Bool := ns.any (·.1 = n)
def nsGet {β} (ns : List (Name × List β)) (n : Name) : Option (List β) := (ns.find? (·.1 = n)).map (·.2)
/-- create, or overwrite the (first) object of that name -/
def nsPut {β} : List (Name × List β) → Name → List β → List (Name × List β)
  | [], n, d => [(n, d)]
  | e :: es, n, d => if e.1 = n then (n, d) :: es else e :: nsPut es n d
def nsDel {β} (ns : List (Name × List β)) (n : Name) : List (Name × List β) := ns.filter (·.1 ≠ n)
/-- rename the (first) object called `s` -/
def nsRename {β} : List (Name × List β) → Name → Name → List (Name × List β)
  | [], _, _ => []
  | e :: es, s, d => if e.1 = s then (d, e.2) :: es else e :: nsRename es s d

/-- State of one `upload_file` call. -/
structure Run (β : Type) where
  srv : Srv β
  k : Nat := 0                       -- requests issued so far
  log : List String := []            -- their classes
  renamed : Option (List β) := none  -- content that received the final name (server side)
  deriving Repr

/-- What a request does on the server when it is performed; `none` = the server itself refuses
(conflict, not found), which the client sees as an error reply.  The flag says "corrupt the data". -/
abbrev Effect (β : Type) := Srv β → Bool → Option (Srv β)

def noEffect {β} : Effect β := fun s _ => some s

/-- Issue one request: the script decides the reaction.  Returns the new state and whether the client
got a usable success reply. -/
def Run.req {β} (r : Run β) (script : Nat → Resp) (cls : String) (eff : Effect β) : Run β × Bool :=
  let resp := script r.k
  let r' : Run β := { r with k := r.k + 1, log := r.log ++ [cls] }
  if resp.performed then
    match eff r.srv (resp == .corrupt) with
    | some s => ({ r' with srv := s }, resp.good)
    | none => (r', false)
  else (r', false)

structure Out (β : Type) where
  ok : Bool
  run : Run β
  deriving Repr

structure Cfg (β H : Type) where
  hP : List β → H                 -- the provider's checksum of stored bytes
  mangle : List β → List β        -- what "corrupt" does to the bytes
  tmp : Name
  final : Name
  depth : Nat := 3                -- Google: listings needed to resolve a path in the group directory
  polls : Nat := 600              -- Yandex: operation polls before "timed out"

variable {β H : Type} [DecidableEq H]

def dataOf (c : Cfg β H) (d : List β) (corrupt : Bool) : List β := if corrupt then c.mangle d else d

def delTmp (c : Cfg β H) : Effect β := fun s _ => if nsHas s.ns c.tmp then some { s with ns := nsDel s.ns c.tmp } else none

/-- `n` read-only requests of class `cls`; stops at the first failure. -/
def reads (script : Nat → Resp) (cls : String) : Nat → Run β → Run β × Bool
  | 0, r => (r, true)
  | n+1, r =>
    let (r, ok) := r.req script cls noEffect
    if ok then reads script cls n r else (r, false)

/-- The final rename `tmp → final` (`requireFree`: the server refuses when the final name is taken —
Dropbox `move_v2` without autorename, Yandex `move` with `overwrite=false`; Google's `PATCH name` does not
care).  Records the content that received the final name when the server performed the rename. -/
def renameStep (c : Cfg β H) (script : Nat → Resp) (cls : String) (requireFree : Bool) (r : Run β) : Run β × Bool :=
  let stored := (nsGet r.srv.ns c.tmp).getD []
  let can := nsHas r.srv.ns c.tmp && (!requireFree || !nsHas r.srv.ns c.final)
  let (r', ok) := r.req script cls (fun s _ =>
    if nsHas s.ns c.tmp && (!requireFree || !nsHas s.ns c.final) then some { s with ns := nsRename s.ns c.tmp c.final } else none)
  ({ r' with renamed := if (script r.k).performed && can then some stored else none }, ok)

/-! ### Dropbox: upload session, commit under the temporary name, compare `content_hash`, move -/

def dbxAppends (c : Cfg β H) (script : Nat → Resp) : List (List β) → Run β → Run β × Bool
  | [], r => (r, true)
  | b :: bs, r =>
    let (r, ok) := r.req script "upload-append" (fun s cor => some { s with session := s.session ++ dataOf c b cor })
    if ok then dbxAppends c script bs r else (r, false)

def dbxRename (c : Cfg β H) (script : Nat → Resp) (r : Run β) : Out β :=
  let (r', ok) := renameStep c script "move" true r
  ⟨ok, r'⟩

def dropbox (c : Cfg β H) (script : Nat → Resp) (srv : Srv β) (bodies : List (List β)) (ending : Ending H) : Out β :=
  let (r, ok) := ({ srv := srv } : Run β).req script "upload-start" (fun s _ => some { s with session := [] })
  if !ok then ⟨false, r⟩ else
  let (r, ok) := dbxAppends c script bodies r
  if !ok then ⟨false, r⟩ else
  match ending with
  | .error | .hangup => ⟨false, r⟩
  | .final _ csum =>
    let (r, ok) := r.req script "upload-finish" (fun s cor => some { s with ns := nsPut s.ns c.tmp (dataOf c s.session cor) })
    if !ok then ⟨false, r⟩ else
    if c.hP ((nsGet r.srv.ns c.tmp).getD []) ≠ csum then
      ⟨false, (r.req script "delete" (delTmp c)).1⟩
    else dbxRename c script r

/-! ### Yandex Disk: upload URL, one PUT to the temporary name, operation poll, stat md5, move -/

def yaPoll (script : Nat → Resp) : Nat → Run β → Run β × Bool
  | 0, r => (r, false)                                  -- "operation has timed out"
  | n+1, r =>
    let resp := script r.k
    let (r, ok) := r.req script "operation" noEffect
    if !ok then (r, false)
    else match resp with
      | .pending => yaPoll script n r
      | .opFailed => (r, false)
      | _ => (r, true)

def yaRename (c : Cfg β H) (script : Nat → Resp) (r : Run β) : Out β :=
  let (r', ok) := renameStep c script "move" true r
  if ok then ⟨true, r'⟩ else ⟨false, (r'.req script "delete" (delTmp c)).1⟩

def yaPuts (c : Cfg β H) (script : Nat → Resp) : List (List β) → Run β → Run β × Bool
  | [], r => (r, true)
  | b :: bs, r =>
    let (r, ok) := r.req script "upload-put" (fun s cor => some { s with ns := nsPut s.ns c.tmp (dataOf c b cor) })
    if ok then yaPuts c script bs r else (r, false)

def yandex (c : Cfg β H) (script : Nat → Resp) (srv : Srv β) (bodies : List (List β)) (ending : Ending H) : Out β :=
  let (r, ok) := ({ srv := srv } : Run β).req script "upload-url" noEffect
  if !ok then ⟨false, r⟩ else
  let (r, ok) := yaPuts c script bodies r
  if !ok then ⟨false, r⟩ else
  match ending with
  | .error | .hangup => ⟨false, r⟩
  | .final _ csum =>
    let (r, ok) := yaPoll script c.polls r
    if !ok then ⟨false, r⟩ else
    let (r, ok) := r.req script "stat" noEffect
    if !ok then ⟨false, r⟩ else
    if c.hP ((nsGet r.srv.ns c.tmp).getD []) ≠ csum then
      ⟨false, (r.req script "delete" (delTmp c)).1⟩
    else yaRename c script r

/-! ### Google Drive: resolve the path, resumable session, one PUT, get md5Checksum, PATCH the name -/

/-- `delete_file(temp_path, only_if_exists = true)`: resolve, then DELETE. -/
def gDelete (c : Cfg β H) (script : Nat → Resp) (r : Run β) : Run β :=
  let (r, ok) := reads script "list" c.depth r
  if !ok then r else
  if !nsHas r.srv.ns c.tmp then r else
  (r.req script "delete" (delTmp c)).1

/-- One `Stream` message: `start_file_upload` (resolve, open a session) and the PUT. -/
def gPut (c : Cfg β H) (script : Nat → Resp) (b : List β) (r : Run β) : Run β × Bool :=
  let (r, ok) := reads script "list" c.depth r
  if !ok then (r, false) else
  let (r, ok) := r.req script "session-start" noEffect
  if !ok then (r, false) else
  r.req script "session-put" (fun s cor => some { s with ns := nsPut s.ns c.tmp (dataOf c b cor) })

def gPuts (c : Cfg β H) (script : Nat → Resp) : List (List β) → Run β → Run β × Bool
  | [], r => (r, true)
  | b :: bs, r =>
    let (r, ok) := gPut c script b r
    if ok then gPuts c script bs r else (r, false)

def gRename (c : Cfg β H) (script : Nat → Resp) (r : Run β) : Out β :=
  let (r', ok) := renameStep c script "patch" false r
  ⟨ok, r'⟩

def google (c : Cfg β H) (script : Nat → Resp) (srv : Srv β) (bodies : List (List β)) (ending : Ending H) : Out β :=
  let (r, ok) := gPuts c script bodies ({ srv := srv } : Run β)
  if !ok then ⟨false, r⟩ else
  match ending with
  | .hangup => ⟨false, r⟩
  | .error => ⟨false, if bodies.isEmpty then r else gDelete c script r⟩
  | .final total csum =>
    if total = 0 then ⟨false, r⟩ else
    if bodies.isEmpty then ⟨false, r⟩ else        -- `file.unwrap()` panics: cannot happen with total > 0
    let (r, ok) := r.req script "get-file" noEffect
    if !ok then ⟨false, r⟩ else
    if c.hP ((nsGet r.srv.ns c.tmp).getD []) ≠ csum then ⟨false, gDelete c script r⟩
    else gRename c script r

inductive Provider where
  | dropbox | yandex | google
  deriving Repr, DecidableEq

def upload (p : Provider) (c : Cfg β H) (script : Nat → Resp) (srv : Srv β) (bodies : List (List β)) (ending : Ending H) : Out β :=
  match p with
  | .dropbox => dropbox c script srv bodies ending
  | .yandex => yandex c script srv bodies ending
  | .google => google c script srv bodies ending

def renameCls : Provider → String
  | .dropbox | .yandex => "move"
  | .google => "patch"

end Vsb.Proto
