/-
M10 — model of `util/stream_splitter.rs::splitter` and `http_client/body.rs::StreamReader`.

The splitter receives messages from the encryptor (`Data::Payload`, `Data::EofWithChecksum`,
`Err`) and re-packages the payload bytes into request bodies ("streams") of at most `max` bytes.
Every `send` on a rendezvous channel is an event the consumer observes; dropping a chunk sender
(`chunk_stream.take()`) is observed by the consumer as a hang-up of that body (`Ev.close`).

A consumer that stops early is modelled by a *budget*: the number of sends it still accepts; the
first send beyond the budget fails, and the code returns `Err` at once (`?` on `send`).
-/
namespace Vsb.Split

/-- What the encryptor side puts on the data channel. -/
inductive Msg (α : Type) where
  | payload (d : List α)
  | eof (checksum : Nat)
  | err (e : String)
  deriving Repr, DecidableEq

/-- What the consumer (provider `upload_file` + HTTP body reader) observes. -/
inductive Ev (α : Type) where
  | stream (offset : Nat)          -- `chunk_streams.send(Ok(Stream(offset, rx)))`
  | chunk (d : List α)             -- `chunk_stream.send(Ok(data))`
  | close                          -- chunk sender dropped: the body ends
  | eof (offset : Nat) (checksum : Nat)  -- `chunk_streams.send(Ok(EofWithCheckSum(..)))`
  | err (e : String)               -- `chunk_streams.send(Err(e))`
  deriving Repr, DecidableEq

/-- Result of the `splitter` function. -/
inductive Res where
  | ok
  | recvClosed        -- "Unable to receive a new message: the sender has been closed"
  | sendClosed        -- "Unable to send a new stream: the receiver has been closed"
  | afterTermination  -- "Got a message after a termination message"
  deriving Repr, DecidableEq

structure St where
  isOpen : Bool := false      -- `chunk_stream.is_some()`
  streamSize : Nat := 0
  offset : Nat := 0
  deriving Repr, DecidableEq

/-- `Ev.close` is not a send; every other event is. -/
def Ev.isSend {α} : Ev α → Bool
  | .close => false
  | _ => true

/-- Try to perform a send under the consumer budget (`none` = consumer never stops). -/
def trySend (budget : Option Nat) : Option (Option Nat) :=
  match budget with
  | none => some none
  | some 0 => none
  | some (n+1) => some (some n)

/-- Outcome of feeding one payload block. `failed = true` means a send failed. -/
structure FeedOut (α : Type) where
  st : St
  evs : List (Ev α)
  budget : Option Nat
  failed : Bool

/-- The inner `loop` of `splitter` for one payload block.  `max = none` is "unlimited";
`some m` must have `m > 0` (with `m = 0` the Rust loop never terminates — here the recursion
is cut by the fuel and reported as `failed`).  Fuel `2 * data.length + 2` always suffices
(`feed_fuel_enough`). -/
def feedAux {α} (max : Option Nat) : Nat → St → Option Nat → List α → List (Ev α) → FeedOut α
  | 0, s, b, _, acc => ⟨s, acc, b, true⟩
  | fuel+1, s, b, data, acc =>
    if data.length = 0 then ⟨s, acc, b, false⟩ else
    -- open a stream if none is open
    let opened : Option (St × Option Nat × List (Ev α)) :=
      if s.isOpen then some (s, b, acc) else
        match trySend b with
        | none => none
        | some b' => some ({ s with isOpen := true, streamSize := 0 }, b', acc ++ [Ev.stream s.offset])
    match opened with
    | none => ⟨s, acc, b, true⟩
    | some (s, b, acc) =>
      let avail := match max with
        | some m => m - s.streamSize
        | none => data.length
      if avail ≥ data.length then
        match trySend b with
        | none => ⟨s, acc, b, true⟩
        | some b' =>
          ⟨{ s with streamSize := s.streamSize + data.length, offset := s.offset + data.length },
            acc ++ [Ev.chunk data], b', false⟩
      else if avail > 0 then
        match trySend b with
        | none => ⟨{ s with isOpen := false }, acc, b, true⟩
        | some b' =>
          feedAux max fuel
            { isOpen := false, streamSize := s.streamSize + avail, offset := s.offset + avail } b'
            (data.drop avail) (acc ++ [Ev.chunk (data.take avail), Ev.close])
      else
        feedAux max fuel { s with isOpen := false } b data (acc ++ [Ev.close])

def feed {α} (max : Option Nat) (s : St) (b : Option Nat) (data : List α) (acc : List (Ev α)) : FeedOut α :=
  feedAux max (2 * data.length + 2) s b data acc

/-- The outer `loop` of `splitter` followed by the trailing `recv`.  `msgs` is everything the
producers ever send before all senders disappear; `acc` is the events emitted so far. -/
def run {α} (max : Option Nat) : St → Option Nat → List (Msg α) → List (Ev α) → List (Ev α) × Res
  | s, _, [], acc => (if s.isOpen then acc ++ [Ev.close] else acc, .recvClosed)  -- locals dropped on return
  | s, b, .payload d :: rest, acc =>
    let o := feed max s b d acc
    if o.failed then (o.evs, .sendClosed) else run max o.st o.budget rest o.evs
  | s, b, .eof c :: rest, acc =>
    let acc := if s.isOpen then acc ++ [Ev.close] else acc      -- `chunk_stream.take()`
    match trySend b with
    | none => (acc, .sendClosed)
    | some _ => (acc ++ [Ev.eof s.offset c], if rest.isEmpty then .ok else .afterTermination)
  | s, b, .err e :: rest, acc =>
    let acc := if s.isOpen then acc ++ [Ev.close] else acc
    match trySend b with
    | none => (acc, .sendClosed)
    | some _ => (acc ++ [Ev.err e], if rest.isEmpty then .ok else .afterTermination)

def splitter {α} (max : Option Nat) (budget : Option Nat) (msgs : List (Msg α)) : List (Ev α) × Res :=
  run max {} budget msgs []

/-! ### The consumer's view: request bodies reconstructed from the event sequence -/

structure Body (α : Type) where
  offset : Nat
  bytes : List α
  deriving Repr, DecidableEq

/-- Bodies in reverse order (newest first) and whether the newest is still open. -/
structure View (α : Type) where
  bodies : List (Body α) := []
  isOpen : Bool := false
  final : Option (Nat × Nat) := none   -- (total, checksum) from the finalisation
  error : Option String := none
  bad : Bool := false                  -- protocol violation seen by the consumer

def View.apply {α} (v : View α) : Ev α → View α
  | .stream off =>
      if v.isOpen || v.final.isSome || v.error.isSome then { v with bad := true }
      else { v with bodies := ⟨off, []⟩ :: v.bodies, isOpen := true }
  | .chunk d =>
      match v.isOpen, v.bodies with
      | true, b :: bs => { v with bodies := { b with bytes := b.bytes ++ d } :: bs }
      | _, _ => { v with bad := true }
  | .close => if v.isOpen then { v with isOpen := false } else { v with bad := true }
  | .eof off c =>
      if v.isOpen || v.final.isSome || v.error.isSome then { v with bad := true }
      else { v with final := some (off, c) }
  | .err e =>
      if v.isOpen || v.final.isSome || v.error.isSome then { v with bad := true }
      else { v with error := some e }

def view {α} (evs : List (Ev α)) : View α := evs.foldl View.apply {}

/-- Bodies oldest first. -/
def bodiesOf {α} (evs : List (Ev α)) : List (Body α) := (view evs).bodies.reverse

/-! ### `StreamReader` (http_client/body.rs): re-fragmentation of one body for the HTTP client -/

/-- One chunk-channel message as seen by `StreamReader`: `Ok(bytes)` or `Err`. -/
inductive ChunkMsg (α : Type) where
  | ok (d : List α)
  | err (e : String)
  deriving Repr, DecidableEq

structure Reader (α : Type) where
  pending : List (ChunkMsg α)       -- messages still in the channel (then hang-up)
  current : Option (List α) := none -- `current_chunk`
  deriving Repr

inductive ReadRes (α : Type) where
  | data (d : List α)   -- `Ok(n)` with the bytes copied into `buf`
  | eof                 -- `Ok(0)`
  | error (e : String)
  | panic               -- `assert_ne!(data_size, 0)`
  deriving Repr, DecidableEq

/-- `get_current_chunk`: `Ok(Some(chunk))`, `Ok(None)` on hang-up, or the received error. -/
inductive Cur (α : Type) where
  | chunk (r : Reader α) (c : List α)
  | hangup
  | error (r : Reader α) (e : String)

def Reader.getCurrent {α} (r : Reader α) : Cur α :=
  match r.current with
  | some c => .chunk r c
  | none =>
    match r.pending with
    | [] => .hangup
    | .ok d :: rest => .chunk { pending := rest, current := some d } d
    | .err e :: rest => .error { pending := rest, current := none } e

/-- `StreamReader::read` with a buffer of `bufLen` bytes. -/
def Reader.read {α} (r : Reader α) (bufLen : Nat) : Reader α × ReadRes α :=
  match r.getCurrent with
  | .error r' e => (r', .error e)
  | .hangup => (r, .eof)
  | .chunk r' c =>
    if c.length = 0 then (r', .panic) else
    let n := min bufLen c.length
    let rest := c.drop n
    ({ r' with current := if rest.isEmpty then none else some rest }, .data (c.take n))

end Vsb.Split
