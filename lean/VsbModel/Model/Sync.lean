/-
M12 — model of `uploading/sync.rs`: `sync_backups`, `check_backup_groups`,
`get_target_backup_groups`, `get_group_to_backups_mapping`.

Group and backup names are fixed-width digit strings (`\d{4}\.\d{2}\.\d{2}[-\d{2}:\d{2}:\d{2}]`),
whose byte order is the numeric order of their digits, so names are modelled as `Nat`.
A `BTreeMap<&str, BTreeSet<&str>>` is a strictly ascending association list whose values are
strictly ascending lists.
-/
namespace Vsb.Sync

/-- A listed backup group: name and the names of its (final-named) backups. -/
abbrev Group := Nat × List Nat
abbrev BMap := List (Nat × List Nat)

/-- `BTreeSet::insert` -/
def insertKey (k : Nat) : List Nat → List Nat
  | [] => [k]
  | x :: xs => if k < x then k :: x :: xs else if k = x then x :: xs else x :: insertKey k xs

/-- `BTreeSet::extend` / `collect` -/
def extendSet (s : List Nat) (ks : List Nat) : List Nat := ks.foldl (fun acc k => insertKey k acc) s

/-- `map.entry(g).or_default().extend(bs)` -/
def entryExtend (g : Nat) (bs : List Nat) : BMap → BMap
  | [] => [(g, extendSet [] bs)]
  | (x, xs) :: rest =>
    if g < x then (g, extendSet [] bs) :: (x, xs) :: rest
    else if g = x then (x, extendSet xs bs) :: rest
    else (x, xs) :: entryExtend g bs rest

/-- `get_group_to_backups_mapping` (collect into a map; for a repeated name the last wins in Rust —
names in a listing are distinct, and for distinct names this coincides). -/
def mapping (groups : List Group) : BMap :=
  groups.foldl (fun m g => entryExtend g.1 g.2 m) []

def lookup (m : BMap) (g : Nat) : Option (List Nat) := (m.find? (·.1 = g)).map (·.2)

/-- The reverse scan that finds the `max`-th newest non-empty group. -/
def findCut (max : Nat) : List (Nat × List Nat) → Nat → Option Nat
  | [], _ => none
  | (g, bs) :: rest, n =>
    if bs.isEmpty then findCut max rest n
    else if n + 1 ≥ max then some g
    else findCut max rest (n + 1)

/-- `get_target_backup_groups` -/
def targetGroups (localGs cloudGs : List Group) (max : Nat) : BMap :=
  let target := cloudGs.foldl (fun m g => entryExtend g.1 g.2 m) (mapping localGs)
  if target.length > max then
    match findCut max target.reverse 0 with
    | some first => target.filter (fun e => first ≤ e.1)     -- `split_off(first)`
    | none => target
  else target

/-- `check_backup_groups`: `true` = the safeguard fires ("possible backup corruption"). -/
def wipedGuard (localGs cloudGs : List Group) : Bool :=
  let localNum := (localGs.filter (fun g => !g.2.isEmpty)).length
  localNum < 2 && cloudGs.length > localNum

inductive Act where
  | createGroup (g : Nat)
  | upload (g b : Nat)
  | delete (g : Nat)
  deriving Repr, DecidableEq

/-- The upload loop over the backups of one target group. -/
def uploadBackups (fails : Act → Bool) (g : Nat) (cloudBackups : List Nat) :
    List Nat → Bool → List Act × Bool
  | [], ok => ([], ok)
  | b :: bs, ok =>
    if cloudBackups.contains b then uploadBackups fails g cloudBackups bs ok
    else
      let ok' := ok && !fails (.upload g b)
      let (acts, ok'') := uploadBackups fails g cloudBackups bs ok'
      (.upload g b :: acts, ok'')

/-- The loop over target groups. -/
def uploadGroups (fails : Act → Bool) (cloud : BMap) : BMap → Bool → List Act × Bool
  | [], ok => ([], ok)
  | (g, bs) :: rest, ok =>
    if bs.isEmpty then uploadGroups fails cloud rest ok else
    match lookup cloud g with
    | some cbs =>
      let (a1, ok1) := uploadBackups fails g cbs bs ok
      let (a2, ok2) := uploadGroups fails cloud rest ok1
      (a1 ++ a2, ok2)
    | none =>
      if fails (.createGroup g) then
        let (a2, ok2) := uploadGroups fails cloud rest false
        (.createGroup g :: a2, ok2)
      else
        let (a1, ok1) := uploadBackups fails g [] bs ok
        let (a2, ok2) := uploadGroups fails cloud rest ok1
        (.createGroup g :: a1 ++ a2, ok2)

/-- The deletion loop over cloud groups outside the target. -/
def deleteGroups (target : BMap) (ok : Bool) : BMap → List Act
  | [] => []
  | (g, _) :: rest =>
    if (lookup target g).isSome then deleteGroups target ok rest
    else if !ok then deleteGroups target ok rest
    else .delete g :: deleteGroups target ok rest

/-- `sync_backups`: the attempted provider actions in order and the returned `ok`.
`fails a` says whether action `a` fails (a failed `delete` is logged but does not clear `ok`). -/
def syncBackups (localGs cloudGs : List Group) (ok : Bool) (max : Nat) (fails : Act → Bool) :
    List Act × Bool :=
  let ok := ok && !wipedGuard localGs cloudGs
  let target := targetGroups localGs cloudGs max
  let cloud := mapping cloudGs
  let (ups, ok) := uploadGroups fails cloud target ok
  (ups ++ deleteGroups target ok cloud, ok)

end Vsb.Sync
