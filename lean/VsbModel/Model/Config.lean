/-
M13 — model of `config.rs` (`Config::load`, `validate_path`, `validate_local_path`), the schemas of
`backuping/config.rs` and `uploading/config.rs` (serde `deny_unknown_fields`, `validator` rules), and
the ordering in `main.rs::run` (configuration is loaded and validated before any action).

The configuration document is the YAML text parsed to a tree (`V`); YAML surface syntax is not
modelled (the correspondence feeds JSON-syntax YAML).  Mappings keep their key order and may hold a
key twice (serde rejects that).
-/
namespace Vsb.Config

inductive V where
  | null
  | bool (b : Bool)
  | num (n : Int)
  | str (s : String)
  | list (l : List V)
  | obj (fields : List (String × V))
  deriving Repr

/-! ### Paths -/

/-- Split at `/`. -/
def splitSlash (cs : List Char) : List (List Char) :=
  let rec go (cur : List Char) : List Char → List (List Char)
    | [] => [cur.reverse]
    | '/' :: rest => cur.reverse :: go [] rest
    | c :: rest => go (c :: cur) rest
  go [] cs

/-- `validate_path`: must start at the root; `Path::components()` drops empty and `.` components;
anything else than normal components (`..`) is rejected; the result is re-joined with single `/`. -/
def keptComps (rest : List Char) : List (List Char) :=
  (splitSlash rest).filter (fun c => c ≠ [] && c ≠ ['.'])

def normalizePath (p : String) : Option String :=
  match p.toList with
  | '/' :: rest =>
    if (keptComps rest).any (fun c => c = ['.', '.']) then none
    else some (String.ofList ('/' :: List.intercalate ['/'] (keptComps rest)))
  | _ => none

/-- `shellexpand::tilde`: `~` and `~/…` are replaced by the home directory. -/
def tilde (home : String) (p : String) : String :=
  match p.toList with
  | ['~'] => home
  | '~' :: '/' :: rest => home ++ String.ofList ('/' :: rest)
  | _ => p

def normalizeLocal (home : String) (p : String) : Option String := normalizePath (tilde home p)

/-! ### Schema -/

structure Item where
  path : String
  filter : String := ""
  before : Option String := none
  after : Option String := none
  deriving Repr, DecidableEq

structure BackupCfg where
  items : List Item
  maxGroups : Nat
  maxPerGroup : Nat
  deriving Repr, DecidableEq

structure UploadCfg where
  provider : String
  credentials : List (String × String)
  path : String
  maxGroups : Nat
  passphrase : String
  maxAge : Option String := none
  deriving Repr, DecidableEq

structure Spec where
  name : String
  path : String
  backup : Option BackupCfg := none
  upload : Option UploadCfg := none
  deriving Repr, DecidableEq

structure Cfg where
  backups : List Spec := []
  metrics : Option String := none
  deriving Repr, DecidableEq

/-- Reasons for rejection (classes, not messages). -/
inductive Rej where
  | type_ | unknownKey | duplicateKey | missing | empty | zero | badFilter | badDuration | badPath | duplicateName | badProvider
  deriving Repr, DecidableEq

abbrev R := Except Rej

/-- serde struct deserialisation of a mapping: every key known and present at most once. -/
def fieldsOf (v : V) (known : List String) : R (List (String × V)) :=
  match v with
  | .obj fs =>
    if fs.any (fun f => !known.contains f.1) then .error .unknownKey
    else if (fs.map (·.1)).eraseDups.length ≠ fs.length then .error .duplicateKey
    else .ok fs
  | _ => .error .type_

def get? (fs : List (String × V)) (k : String) : Option V := (fs.find? (·.1 = k)).map (·.2)

/-- serde_yaml hands the text of *any* scalar to a `String` visitor: `name: 7` is the string "7",
`name: null` the string "null" (YAML plain scalars are untyped text). -/
def scalarText : V → Option String
  | .str s => some s
  | .num n => some (toString n)
  | .bool b => some (if b then "true" else "false")
  | .null => some "null"
  | _ => none

def reqStr (fs : List (String × V)) (k : String) : R String :=
  match get? fs k with
  | some v => match scalarText v with
    | some s => .ok s
    | none => .error .type_
  | none => .error .missing

/-- `Option<String>`: absent or `null` is `None`. -/
def optStr (fs : List (String × V)) (k : String) : R (Option String) :=
  match get? fs k with
  | some .null => .ok none
  | some v => match scalarText v with
    | some s => .ok (some s)
    | none => .error .type_
  | none => .ok none

/-- `usize` -/
def reqNat (fs : List (String × V)) (k : String) : R Nat :=
  match get? fs k with
  | some (.num n) => if 0 ≤ n ∧ n < 2 ^ 64 then .ok n.toNat else .error .type_
  | some _ => .error .type_
  | none => .error .missing

def nonEmpty (s : String) : R Unit := if s.length ≥ 1 then .ok () else .error .empty
def positive (n : Nat) : R Unit := if n ≥ 1 then .ok () else .error .zero

def parseItem (filterOk : String → Bool) (v : V) : R Item := do
  let fs ← fieldsOf v ["path", "filter", "before", "after"]
  let path ← reqStr fs "path"
  let filter ← match get? fs "filter" with
    | some v => match scalarText v with
      | some s => if filterOk s then pure s else throw .badFilter
      | none => throw .type_
    | none => pure ""
  let before ← optStr fs "before"
  let after ← optStr fs "after"
  pure { path, filter, before, after }

def parseBackup (filterOk : String → Bool) (v : V) : R BackupCfg := do
  let fs ← fieldsOf v ["items", "max_backup_groups", "max_backups_per_group"]
  let items ← match get? fs "items" with
    | some (.list l) => l.mapM (parseItem filterOk)
    | some _ => throw .type_
    | none => throw .missing
  let mg ← reqNat fs "max_backup_groups"
  let mp ← reqNat fs "max_backups_per_group"
  pure { items, maxGroups := mg, maxPerGroup := mp }

def providerNames : List String := ["dropbox", "google-drive", "yandex-disk"]

/-- A field of the internally tagged `ProviderConfig`: serde buffers the mapping, so scalars keep their
YAML type and only a real string is accepted. -/
def typedStr (fs : List (String × V)) (k : String) : R String :=
  match get? fs k with
  | some (.str s) => .ok s
  | some _ => .error .type_
  | none => .error .missing

/-- `ProviderConfig` (`#[serde(tag = "name", deny_unknown_fields)]`) and `validate_provider`
(non-empty credentials). -/
def parseProvider (v : V) : R (String × List (String × String)) := do
  let fs ← fieldsOf v ["name", "client_id", "client_secret", "refresh_token"]
  let name ← typedStr fs "name"
  if !providerNames.contains name then throw .badProvider
  let cid ← typedStr fs "client_id"
  let sec ← typedStr fs "client_secret"
  let tok ← typedStr fs "refresh_token"
  nonEmpty cid; nonEmpty sec; nonEmpty tok
  pure (name, [("client_id", cid), ("client_secret", sec), ("refresh_token", tok)])

def parseUpload (durationOk : String → Bool) (v : V) : R UploadCfg := do
  let fs ← fieldsOf v ["provider", "path", "max_backup_groups", "encryption_passphrase", "max_time_without_backups"]
  let pv ← match get? fs "provider" with
    | some p => parseProvider p
    | none => throw .missing
  let path ← reqStr fs "path"
  let mg ← reqNat fs "max_backup_groups"
  let pass ← reqStr fs "encryption_passphrase"
  let age ← match get? fs "max_time_without_backups" with
    | some v => match scalarText v with
      | some s => if durationOk s then pure (some s) else throw .badDuration
      | none => throw .type_
    | none => pure none
  pure { provider := pv.1, credentials := pv.2, path, maxGroups := mg, passphrase := pass, maxAge := age }

def parseSpec (filterOk durationOk : String → Bool) (v : V) : R Spec := do
  let fs ← fieldsOf v ["name", "path", "backup", "upload"]
  let name ← reqStr fs "name"
  let path ← reqStr fs "path"
  let backup ← match get? fs "backup" with
    | some .null => pure none
    | some b => do pure (some (← parseBackup filterOk b))
    | none => pure none
  let upload ← match get? fs "upload" with
    | some .null => pure none
    | some u => do pure (some (← parseUpload durationOk u))
    | none => pure none
  pure { name, path, backup, upload }

/-- serde deserialisation of the whole document. -/
def deserialize (filterOk durationOk : String → Bool) (doc : V) : R Cfg := do
  let fs ← fieldsOf doc ["backups", "prometheus_metrics"]
  let backups ← match get? fs "backups" with
    | some (.list l) => l.mapM (parseSpec filterOk durationOk)
    | some _ => throw .type_
    | none => pure []
  let metrics ← optStr fs "prometheus_metrics"
  pure { backups, metrics }

/-- First failure of a list of checks. -/
def chk : List (R Unit) → R Unit
  | [] => .ok ()
  | .ok () :: rest => chk rest
  | .error e :: _ => .error e

def validateBackup (bc : BackupCfg) : R Unit :=
  chk ([if bc.items.isEmpty then .error .empty else .ok ()] ++ bc.items.map (fun it => nonEmpty it.path) ++
    [positive bc.maxGroups, positive bc.maxPerGroup])

def validateUpload (u : UploadCfg) : R Unit :=
  chk [nonEmpty u.path, positive u.maxGroups, nonEmpty u.passphrase]

def validateSpec (b : Spec) : R Unit :=
  chk [nonEmpty b.name, nonEmpty b.path,
    (match b.backup with | some bc => validateBackup bc | none => .ok ()),
    (match b.upload with | some u => validateUpload u | none => .ok ())]

/-- `config.validate()` (the `validator` rules). -/
def validate (c : Cfg) : R Unit :=
  chk (c.backups.map validateSpec ++ [match c.metrics with | some m => nonEmpty m | none => .ok ()])

/-- Path normalisation of one backup specification. -/
def normSpec (home : String) (b : Spec) : Option Spec :=
  match normalizeLocal home b.path with
  | none => none
  | some path =>
    match b.upload with
    | none => some { b with path := path }
    | some u =>
      match normalizePath u.path with
      | some p => some { b with path := path, upload := some { u with path := p } }
      | none => none

/-- The loop after validation: duplicate names, path normalisation. -/
def finalizeSpecs (home : String) : List String → List Spec → R (List Spec)
  | _, [] => .ok []
  | seen, b :: rest =>
    if seen.contains b.name then .error .duplicateName
    else match normSpec home b with
      | none => .error .badPath
      | some b' =>
        match finalizeSpecs home (b.name :: seen) rest with
        | .ok rest' => .ok (b' :: rest')
        | .error e => .error e

def finalize (home : String) (c : Cfg) : R Cfg :=
  match finalizeSpecs home [] c.backups with
  | .error e => .error e
  | .ok backups =>
    match c.metrics with
    | none => .ok { backups, metrics := none }
    | some m =>
      match normalizeLocal home m with
      | some p => .ok { backups, metrics := some p }
      | none => .error .badPath

/-- `Config::load` on a parsed document. -/
def load (home : String) (filterOk durationOk : String → Bool) (doc : V) : R Cfg :=
  match deserialize filterOk durationOk doc with
  | .error e => .error e
  | .ok c =>
    match validate c with
    | .error e => .error e
    | .ok () => finalize home c

/-! ### `main.rs::run`: nothing is done before the configuration is accepted -/

inductive Action where
  | backup (name : String) | restore | upload
  deriving Repr, DecidableEq

/-- Side effects the actions may have, as an abstract list; `run` returns the exit status and the
effects performed. -/
def run (home : String) (filterOk durationOk : String → Bool) (doc : Option V)
    (act : Action) (effects : Cfg → Action → List String) : Nat × List String :=
  match doc with
  | none => (1, [])                          -- unreadable / unparsable file
  | some d =>
    match load home filterOk durationOk d with
    | .error _ => (1, [])
    | .ok cfg => (0, effects cfg act)         -- (the action's own status is not modelled here)

end Vsb.Config
