import VsbModel.Model.Glob
/-
M1 (filter part) — model of `backuping/filter.rs`: `PathFilter::new` (`spec.lines()`,
`parse_rule_line`, `parse_rule`, `Rule::new` with its manual unescaping) and `PathFilter::check`.
-/
namespace Vsb.Filter
open Vsb.Glob

structure Rule where
  tokens : List Tok
  allow : Bool
  deriving Repr

def isWs (c : Char) : Bool := c = ' ' || c = '\t'

/-- `str::replace(from, to)` for a two-character pattern `\x`: non-overlapping, left to right. -/
def replace2 (x : Char) (to : Char) : List Char → List Char
  | '\\' :: c :: rest => if c = x then to :: replace2 x to rest else '\\' :: replace2 x to (c :: rest)
  | c :: rest => c :: replace2 x to rest
  | [] => []

/-- `Rule::new`: the four `cow_replace` calls, in order. -/
def unescape (g : List Char) : List Char :=
  replace2 ' ' ' ' (replace2 'r' '\r' (replace2 'n' '\n' (replace2 't' '\t' g)))

/-- The trailing-whitespace trimming loop of `parse_rule_line`, on the reversed line: drop trailing
spaces/tabs, but stop (keeping the character) when it is preceded by a backslash. -/
def trimEndRev : List Char → List Char
  | c :: prev :: rest =>
    if !isWs c then c :: prev :: rest
    else if prev = '\\' then c :: prev :: rest
    else trimEndRev (prev :: rest)
  | l => l

/-- `parse_rule`: `+`/`-`, one space, a non-empty glob. -/
def parseRule (rule : List Char) : Option (List Char × Bool) :=
  match rule with
  | s :: ' ' :: g :: rest =>
    if s = '+' then some (g :: rest, true) else if s = '-' then some (g :: rest, false) else none
  | _ => none

inductive LineRes where
  | skip                               -- blank or comment
  | rule (glob : List Char) (allow : Bool)
  | invalid
  deriving Repr, DecidableEq

/-- `parse_rule_line` -/
def parseRuleLine (line : List Char) : LineRes :=
  let l := line.dropWhile isWs
  match l with
  | [] => .skip
  | '#' :: _ => .skip
  | _ =>
    match parseRule (trimEndRev l.reverse).reverse with
    | some (g, a) => .rule g a
    | none => .invalid

/-- `str::lines()`: `split_inclusive('\n')`; a line loses its `\n` and then a `\r` before it; a last
line without `\n` is kept as it is (a bare trailing `\r` stays); no final empty line. -/
def lines (spec : List Char) : List (List Char) :=
  let stripCr := fun (l : List Char) => match l.reverse with
    | '\r' :: r => r.reverse
    | _ => l
  let rec go (cur : List Char) : List Char → List (List Char)
    | [] => if cur.isEmpty then [] else [cur.reverse]
    | '\n' :: rest => stripCr cur.reverse :: go [] rest
    | c :: rest => go (c :: cur) rest
  go [] spec

/-- `PathFilter::new`: rules in file order, or an error. -/
def parseSpec (spec : List Char) : Except String (List Rule) :=
  (lines spec).foldl (fun acc line =>
    match acc with
    | .error e => .error e
    | .ok rules =>
      match parseRuleLine line with
      | .skip => .ok rules
      | .invalid => .error "Invalid filter rule"
      | .rule g a =>
        match parse (unescape g) with
        | .ok toks => .ok (rules ++ [⟨toks, a⟩])
        | .error e => .error ("Invalid glob: " ++ e)) (.ok [])

/-- `PathFilter::check` on the bytes of an item-relative path. -/
def check (rules : List Rule) (path : Bytes) : Bool :=
  match rules.find? (fun r => matchTokens r.tokens path) with
  | some r => r.allow
  | none => true

end Vsb.Filter
