/-
M8 — model of `restoring/plan.rs::RestorePlan::new`, `restoring/restorer.rs::Restorer::{restore,
process_step, restore_files, schedule_file_metadata_change}` and `restoring/util.rs` over an abstract
backup group and an abstract target file system.

`H` is the hash type; file contents are lists of bytes `β`; `hashOf` is SHA-512 as a parameter.
-/
namespace Vsb.Restore

abbrev FPath := List String        -- components below `/` (or below the restore directory)

/-- Header metadata of an archive entry. -/
structure Meta where
  mode : Nat := 0
  uid : Nat := 0
  gid : Nat := 0
  mtime : Int := 0
  deriving Repr, DecidableEq

/-- `tar_header(metadata)` stores `metadata.mtime() as u64`: negative (pre-1970) times wrap. -/
def mtimeToHeader (t : Int) : Nat := (t % 2 ^ 64).toNat

/-- `get_file_metadata`: `header.mtime()? as i64` — the stored value reinterpreted as two's complement. -/
def headerMtime (u : Nat) : Int := if u < 2 ^ 63 then (u : Int) else (u : Int) - 2 ^ 64

inductive Entry (β : Type) where
  | dir (path : String) (m : Meta)
  | file (path : String) (m : Meta) (data : List β)
  | symlink (path : String) (m : Meta) (target : String)
  | other (path : String)              -- hard link, device, fifo, … : unsupported
  deriving Repr, DecidableEq

structure MRec (H : Type) where
  unique : Bool
  hash : H
  size : Nat
  path : String
  deriving Repr, DecidableEq

/-- One backup of the group as restore sees it. `manifest = none`: `read_metadata` fails (missing,
undecodable, or a bad line); `archiveComplete = false`: reading the archive fails after the listed entries. -/
structure Backup (H β : Type) where
  name : String
  manifest : Option (List (MRec H))
  archive : List (Entry β) := []
  archiveComplete : Bool := true
  deriving Repr

/-! ### Path validation (`restoring/util.rs`) -/

/-- Split at `/`. -/
def splitSlash (cs : List Char) : List (List Char) :=
  let rec go (cur : List Char) : List Char → List (List Char)
    | [] => [cur.reverse]
    | '/' :: rest => cur.reverse :: go [] rest
    | c :: rest => go (c :: cur) rest
  go [] cs

def keptParts (rest : List Char) : List (List Char) :=
  (splitSlash rest).filter (fun c => c ≠ [] && c ≠ ['.'])

def compsOf (isAbs : Bool) (rest : List Char) : Option (Bool × List String) :=
  if !isAbs && (splitSlash rest).head? = some ['.'] then none        -- leading `.` of a relative path: CurDir
  else if (keptParts rest).any (· = ['.', '.']) then none               -- ParentDir
  else some (isAbs, (keptParts rest).map String.ofList)

/-- `Path::components()` of a path string, reduced to what the validation needs: `none` when a component
other than `Normal` occurs after the optional root (`..`, or a leading `.` of a relative path); otherwise
whether the path is absolute and its normal components (`components()` drops empty and inner `.` ones). -/
def components (p : String) : Option (Bool × List String) :=
  match p.toList with
  | '/' :: r => compsOf true r
  | r => compsOf false r

/-- `get_file_path_from_tar_path`: all components normal (hence relative, no `..`), at least one. -/
def tarPathToFile (p : String) : Option FPath :=
  match components p with
  | some (false, c :: cs) => some (c :: cs)
  | _ => none

/-- `get_restore_path` applied to a manifest path: absolute, normal components, at least one. -/
def manifestPathToFile (p : String) : Option FPath :=
  match components p with
  | some (true, c :: cs) => some (c :: cs)
  | _ => none

/-! ### The plan -/

structure RFile (H : Type) where
  hash : H
  size : Nat
  paths : List String        -- fan-out: extern paths first, the source path last
  deriving Repr

structure Step (H : Type) where
  backup : Nat                          -- index into the group
  files : List (String × RFile H)       -- `HashMap<PathBuf, RestoringFile>`: key = path of the data-carrying record
  deriving Repr

structure Plan (H : Type) where
  steps : List (Step H) := []
  externFiles : List String := []
  missingFiles : List String := []
  deriving Repr

variable {H β : Type} [DecidableEq H]

/-- `HashMap::insert` on an association list. -/
def mapInsert {V : Type} (m : List (String × V)) (k : String) (v : V) : List (String × V) :=
  if m.any (·.1 = k) then m.map (fun e => if e.1 = k then (k, v) else e) else m ++ [(k, v)]

def mapGet {V : Type} (m : List (String × V)) (k : String) : Option V := (m.find? (·.1 = k)).map (·.2)

/-- `to_find: HashMap<Hash, Vec<PathBuf>>` together with `extern_sizes` (the size each extern record
claims), kept per path. -/
abbrev ToFind (H : Type) := List (H × List (String × Nat))

def toFindPush (tf : ToFind H) (h : H) (p : String) (size : Nat) : ToFind H :=
  if tf.any (·.1 = h) then tf.map (fun e => if e.1 = h then (e.1, e.2 ++ [(p, size)]) else e) else tf ++ [(h, [(p, size)])]

def toFindRemove (tf : ToFind H) (h : H) : Option (List (String × Nat)) × ToFind H :=
  ((tf.find? (·.1 = h)).map (·.2), tf.filter (·.1 ≠ h))

/-- `check_extern_sizes`: every extern record resolved by a data record must claim that record's size. -/
def sizesOk (found : List (String × Nat)) (size : Nat) : Bool := found.all (·.2 = size)

structure PlanAcc (H : Type) where
  files : List (String × RFile H) := []
  ext : List String := []
  tf : ToFind H := []
  ok : Bool := true

/-- One own file (unique or empty) of the target manifest: it collects the externs waiting for its hash. -/
def ownStep (acc : PlanAcc H) (r : MRec H) : PlanAcc H :=
  let found := ((toFindRemove acc.tf r.hash).1).getD []
  let paths := found.map (·.1)
  { files := mapInsert acc.files r.path ⟨r.hash, r.size, paths ++ [r.path]⟩,
    ext := acc.ext ++ paths, tf := (toFindRemove acc.tf r.hash).2,
    -- several records for one path / an extern size differing from the data clear `ok`
    ok := acc.ok && !acc.files.any (·.1 = r.path) && sizesOk found r.size }

def isOwn (r : MRec H) : Bool := r.unique || r.size = 0

/-- The target backup's own step. -/
def planTarget (recs : List (MRec H)) : PlanAcc H :=
  -- first pass: own files, and externs to find
  let tf : ToFind H := (recs.filter (fun r => !isOwn r)).foldl (fun tf r => toFindPush tf r.hash r.path r.size) []
  -- second pass over the own files, in order
  (recs.filter isOwn).foldl ownStep { tf := tf }

/-- An earlier backup's step: unique records that supply a hash still looked for. -/
def earlierLoop : List (MRec H) → PlanAcc H → PlanAcc H
  | [], acc => acc
  | r :: rest, acc =>
    if acc.tf.isEmpty then acc                   -- `break` once nothing is left to find
    else if !r.unique then earlierLoop rest acc
    else match (toFindRemove acc.tf r.hash).1 with
      | some found =>
        earlierLoop rest { files := mapInsert acc.files r.path ⟨r.hash, r.size, found.map (·.1)⟩,
                           ext := acc.ext ++ found.map (·.1), tf := (toFindRemove acc.tf r.hash).2,
                           ok := acc.ok && sizesOk found r.size }
      | none => earlierLoop rest acc

def planEarlier (recs : List (MRec H)) (tf : ToFind H) : PlanAcc H := earlierLoop recs { tf := tf }

inductive PlanRes (H : Type) where
  | err                                   -- unreadable manifest of a needed backup / backup not in group
  | ok (p : Plan H) (ok : Bool)
  deriving Repr

/-- The walk over the earlier backups, newest first. `none`: a needed manifest cannot be read. -/
def earlierBackups (group : List (Backup H β)) : List Nat → List (Step H) → List String → ToFind H → Bool →
    Option (List (Step H) × List String × ToFind H × Bool)
  | [], steps, ext, tf, ok => some (steps, ext, tf, ok)
  | i :: rest, steps, ext, tf, ok =>
    if tf.isEmpty then some (steps, ext, tf, ok)
    else match group[i]? with
      | none => some (steps, ext, tf, ok)
      | some b =>
        match b.manifest with
        | none => none                       -- read error aborts planning
        | some recs =>
          let a := planEarlier recs tf
          let steps' := if a.files.isEmpty then steps else steps ++ [⟨i, a.files⟩]
          earlierBackups group rest steps' (ext ++ a.ext) a.tf (ok && a.ok)

/-- `RestorePlan::new`: `group` oldest first, `target` = index of the backup to restore. -/
def plan (group : List (Backup H β)) (target : Nat) : PlanRes H :=
  match group[target]? with
  | none => .err
  | some tb =>
    match tb.manifest with
    | none => .err
    | some recs =>
      let a0 := planTarget recs
      match earlierBackups group ((List.range target).reverse) [⟨target, a0.files⟩] a0.ext a0.tf a0.ok with
      | none => .err
      | some (steps, ext, tf, ok) =>
        let missing := tf.flatMap (fun e => e.2.map (·.1))
        .ok { steps := steps, externFiles := ext, missingFiles := missing } (ok && missing.isEmpty)

/-! ### Target file system -/

inductive FNode (β : Type) where
  | dir (m : Option Meta)            -- `none`: still owner-only 0700, metadata not applied yet
  | file (data : List β) (m : Option Meta)
  | symlink (target : String) (m : Meta)
  deriving Repr

abbrev FS (β : Type) := List (FPath × FNode β)

def fsGet (fs : FS β) (p : FPath) : Option (FNode β) := (fs.find? (·.1 = p)).map (·.2)

def parentOk (fs : FS β) (p : FPath) : Bool :=
  match p.dropLast with
  | [] => true                                   -- directly below the restore directory
  | par => match fsGet fs par with
    | some (.dir _) => true
    | _ => false

/-- `mkdir` / `create_new` / `symlink`: fails if the name exists or the parent is not a directory. -/
def fsCreate (fs : FS β) (p : FPath) (n : FNode β) : Option (FS β) :=
  if (fsGet fs p).isSome || !parentOk fs p || p.isEmpty then none else some (fs ++ [(p, n)])

def setMetaNode (m : Meta) : FNode β → FNode β
  | .dir _ => .dir (some m)
  | .file d _ => .file d (some m)
  | .symlink t _ => .symlink t m

def fsSetMeta (fs : FS β) (p : FPath) (m : Meta) : Option (FS β) :=
  match fsGet fs p with
  | none => none
  | some _ => some (fs.map (fun e => if e.1 = p then (e.1, setMetaNode m e.2) else e))

/-- `restore_directories`: create the missing ancestors of `p` (owner-only); returns the created ones. -/
def restoreDirectories (fs : FS β) (p : FPath) : FS β × List FPath :=
  let rec go (pre : FPath) (rest : List String) (fs : FS β) (made : List FPath) : FS β × List FPath :=
    match rest with
    | [] => (fs, made)
    | [_] => (fs, made)
    | c :: rest' =>
      let d := pre ++ [c]
      match fsGet fs d with
      | some _ => go d rest' fs made
      | none => go d rest' (fs ++ [(d, .dir none)]) (made ++ [d])
  go [] p fs []

/-! ### Execution -/

structure RSt (β : Type) where
  fs : FS β := []
  ok : Bool := true
  pending : List String := []
  restored : List String := []
  missing : List String := []
  preCreated : List FPath := []
  scheduled : List (FPath × Meta) := []
  deriving Repr

inductive RRes (β : Type) where
  | err (fs : FS β)                 -- `Err`: exit status 1, whatever was created stays
  | done (fs : FS β) (ok : Bool)
  deriving Repr

/-- The creation loop of `restore_files`: one file per path of the fan-out, holding `content`
(the first `size` bytes of the entry data; the code creates the files while the data is still being
verified). -/
def createFiles (content : List β) (sourcePath : String) (isTarget : Bool) : List String → RSt β → Option (RSt β)
  | [], st => some st
  | p :: rest, st =>
    match manifestPathToFile p with
    | none => none
    | some fp =>
      let isSource := isTarget && p = sourcePath
      -- non-source paths must be pending extern files (`take(path).unwrap()`)
      if !isSource && !st.pending.contains p then none else
      let st1 := if isSource then st else
        { st with pending := st.pending.erase p, restored := st.restored ++ [p] }
      let dres := if isTarget && !isSource then restoreDirectories st1.fs fp else (st1.fs, [])
      match fsCreate dres.1 fp (.file content none) with
      | none => none
      | some fs2 => createFiles content sourcePath isTarget rest { st1 with fs := fs2, preCreated := st1.preCreated ++ dres.2 }

/-- `restore_files`: write the data to every path of the fan-out, then verify size and hash. -/
def restoreFiles (hashOf : List β → H) (st : RSt β) (sourcePath : String) (m : Meta) (data : List β)
    (info : RFile H) (isTarget : Bool) : Option (RSt β) :=
  match createFiles (data.take info.size) sourcePath isTarget info.paths st with
  | none => none
  | some st =>
    -- verification: exactly `size` bytes must be there and hash to the recorded hash
    if data.length < info.size then none
    else if hashOf (data.take info.size) ≠ info.hash then none
    else if isTarget && info.paths.contains sourcePath then
      match manifestPathToFile sourcePath with
      | some fp => (fsSetMeta st.fs fp m).map (fun fs => { st with fs := fs })
      | none => none
    else some st

/-- One archive entry in `process_step`. `seen` collects the keys of `step.files` met (used by the
missing-entry report). -/
def processEntry (hashOf : List β → H) (files : List (String × RFile H)) (isTarget : Bool)
    (st : RSt β) (seen : List String) (e : Entry β) : Option (RSt β × List String) :=
  match e with
  | .other _ => none
  | .dir p m =>
    match tarPathToFile p with
    | none => none
    | some fp =>
      if !isTarget then some (st, seen) else
      if st.preCreated.contains fp then
        some ({ st with preCreated := st.preCreated.erase fp, scheduled := st.scheduled ++ [(fp, m)] }, seen)
      else match fsCreate st.fs fp (.dir none) with
        | none => none
        | some fs => some ({ st with fs := fs, scheduled := st.scheduled ++ [(fp, m)] }, seen)
  | .symlink p m target =>
    match tarPathToFile p with
    | none => none
    | some fp =>
      if !isTarget then some (st, seen) else
      match fsCreate st.fs fp (.symlink target m) with
      | none => none
      | some fs => some ({ st with fs := fs }, seen)
  | .file p m data =>
    match tarPathToFile p with
    | none => none
    | some fp =>
      let key := "/" ++ "/".intercalate fp
      match mapGet files key with
      | some info => (restoreFiles hashOf st key m data info isTarget).map (fun st => (st, seen ++ [key]))
      | none =>
        if !isTarget then some (st, seen)
        else if st.pending.contains key || st.restored.contains key then
          some ({ st with ok := st.ok && data.isEmpty, scheduled := st.scheduled ++ [(fp, m)] }, seen)
        else if !st.missing.contains key then some ({ st with ok := false }, seen)    -- unexpected file
        else some (st, seen)

/-- The loop over archive entries. -/
def processEntries (hashOf : List β → H) (files : List (String × RFile H)) (isTarget : Bool) :
    List (Entry β) → RSt β → List String → Option (RSt β × List String)
  | [], st, seen => some (st, seen)
  | e :: rest, st, seen =>
    match processEntry hashOf files isTarget st seen e with
    | none => none
    | some (st', seen') => processEntries hashOf files isTarget rest st' seen'

/-- `process_step` (with the report of planned files whose entry never appeared). -/
def processStep (hashOf : List β → H) (b : Backup H β) (step : Step H) (isTarget : Bool) (st : RSt β) : Option (RSt β) :=
  match processEntries hashOf step.files isTarget b.archive st [] with
  | none => none
  | some (st', seen) =>
    if !b.archiveComplete then none
    else some { st' with ok := st'.ok && step.files.all (fun f => seen.contains f.1) }

/-- The loop over plan steps (`first` = the target backup's own step). -/
def runSteps (hashOf : List β → H) (group : List (Backup H β)) : List (Step H) → Bool → RSt β → Option (RSt β)
  | [], _, st => some st
  | s :: rest, first, st =>
    match group[s.backup]? with
    | none => none
    | some b =>
      match processStep hashOf b s first st with
      | none => none
      | some st' => runSteps hashOf group rest false st'

/-- Scheduled metadata, applied in reverse order, except for files whose extern data is missing. -/
def applyMeta (pending : List String) : List (FPath × Meta) → FS β → Option (FS β)
  | [], fs => some fs
  | (fp, m) :: rest, fs =>
    if pending.contains ("/" ++ "/".intercalate fp) then applyMeta pending rest fs
    else match fsSetMeta fs fp m with
      | some fs' => applyMeta pending rest fs'
      | none => none

/-- `Restorer::restore` into a freshly created, empty restore directory. -/
def restore (hashOf : List β → H) (group : List (Backup H β)) (target : Nat) : RRes β :=
  match plan group target with
  | .err => .err []
  | .ok p planOk =>
    let st0 : RSt β := { ok := planOk, pending := p.externFiles, missing := p.missingFiles }
    match runSteps hashOf group p.steps true st0 with
    | none => .err []
    | some st =>
      match applyMeta st.pending st.scheduled.reverse st.fs with
      | none => .err st.fs
      | some fs => .done fs (st.ok && st.pending.isEmpty && st.preCreated.isEmpty)

end Vsb.Restore
