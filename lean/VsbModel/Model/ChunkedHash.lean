/-
M11 — model of `util/hash.rs`: `ChunkedSha256::{write, consume_block, finish}` driven by
`io::Write::write_all`, and the streaming `Md5`.

The digest function is a parameter: `H : List α → δ` ("SHA-256 of these bytes").  The assumed
behaviour of the real streaming hashers is `update` ≡ appending to the hashed byte string, so a
hasher state is represented by the bytes fed so far (`BlockHasher.fed`) resp. by the list of block
digests fed to `result_hasher` (`St.digests`, oldest first).
-/
namespace Vsb.ChunkedHash

structure BlockHasher (α : Type) where
  fed : List α            -- bytes given to `hasher.update` so far
  available : Nat         -- `available_size`
  deriving Repr, DecidableEq

structure St (α δ : Type) where
  blockSize : Nat
  block : Option (BlockHasher α) := none
  digests : List δ := []  -- what `result_hasher` was updated with, in order
  deriving Repr

variable {α δ : Type}

/-- `consume_block` -/
def St.consumeBlock (H : List α → δ) (s : St α δ) : St α δ :=
  match s.block with
  | some b => { s with block := none, digests := s.digests ++ [H b.fed] }
  | none => s

/-- `Write::write`: returns the new state and the number of bytes consumed. -/
def St.write (H : List α → δ) (s : St α δ) (buf : List α) : St α δ × Nat :=
  let dataSize := buf.length
  if dataSize = 0 then (s, 0) else
  let (s, available) : St α δ × Nat :=
    match s.block with
    | some b => (s, b.available)
    | none => ({ s with block := some ⟨[], s.blockSize⟩ }, s.blockSize)
  if dataSize < available then
    match s.block with
    | some b => ({ s with block := some ⟨b.fed ++ buf, b.available - dataSize⟩ }, dataSize)
    | none => (s, dataSize)   -- unreachable: a block hasher exists here
  else
    match s.block with
    | some b => (St.consumeBlock H { s with block := some ⟨b.fed ++ buf.take available, b.available⟩ }, available)
    | none => (s, available)  -- unreachable

/-- `io::Write::write_all`: repeat `write` on the unconsumed rest; a write that consumes nothing
from a non-empty buffer is `ErrorKind::WriteZero`.  Fuel `buf.length + 1` always suffices. -/
def St.writeAllAux (H : List α → δ) : Nat → St α δ → List α → Option (St α δ)
  | 0, _, _ => none
  | fuel+1, s, buf =>
    if buf.isEmpty then some s else
    let (s', n) := s.write H buf
    if n = 0 then none else St.writeAllAux H fuel s' (buf.drop n)

def St.writeAll (H : List α → δ) (s : St α δ) (buf : List α) : Option (St α δ) :=
  St.writeAllAux H (buf.length + 1) s buf

/-- `Hasher::finish`: `Hout` is "SHA-256 of the concatenation of these digests". -/
def St.finish {ρ : Type} (H : List α → δ) (Hout : List δ → ρ) (s : St α δ) : ρ :=
  Hout (s.consumeBlock H).digests

/-- Feed a whole fragmentation (list of write_all calls). -/
def feedParts (H : List α → δ) : St α δ → List (List α) → Option (St α δ)
  | s, [] => some s
  | s, p :: ps => match s.writeAll H p with
    | some s' => feedParts H s' ps
    | none => none

/-- The provider's definition: consecutive blocks of `bs` bytes, the last one possibly shorter,
no block at all for the empty input. -/
def blocks (bs : Nat) (data : List α) : List (List α) :=
  if h : bs = 0 ∨ data = [] then [] else
    data.take bs :: blocks bs (data.drop bs)
termination_by data.length
decreasing_by
  simp only [not_or] at h
  have : data.length ≠ 0 := fun hl => h.2 (List.eq_nil_of_length_eq_zero hl)
  simp [List.length_drop]; omega

def spec {ρ : Type} (H : List α → δ) (Hout : List δ → ρ) (bs : Nat) (data : List α) : ρ :=
  Hout ((blocks bs data).map H)

/-- Whole computation as the code performs it. -/
def chunked {ρ : Type} (H : List α → δ) (Hout : List δ → ρ) (bs : Nat) (parts : List (List α)) : Option ρ :=
  (feedParts H ({ blockSize := bs } : St α δ) parts).map (St.finish H Hout)

/-! `Md5`: every `write` consumes the whole buffer and updates the digest. -/
def md5Stream {ρ : Type} (Hmd5 : List α → ρ) (parts : List (List α)) : ρ := Hmd5 parts.flatten

end Vsb.ChunkedHash
