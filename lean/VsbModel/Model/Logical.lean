import VsbModel.Model.SelfContained

/-
M8c — a backup of a group as `vsb backup` writes it, described by the tree the walk read (`es`: one entry per
node, file entries with their full content) and by which file contents this backup stores itself (`stored`,
by archive path); every other non-empty file is recorded `extern` and archived without data.  `render` is the
backup as `vsb restore` sees it.
-/
namespace Vsb.Restore
variable {H β : Type} [DecidableEq H]

structure LBackup (β : Type) where
  name : String
  es : List (Entry β)
  stored : String → Bool

/-- The archive entry written for a node: data only for files stored here. -/
def stripE (stored : String → Bool) : Entry β → Entry β
  | .file p m d => .file p m (if stored p then d else [])
  | e => e

/-- The manifest line written for a file: `unique` iff non-empty and stored here. -/
def recG (hashOf : List β → H) (stored : String → Bool) : Entry β → Option (MRec H)
  | .file p m d => some ⟨decide (d.length ≠ 0) && stored p, hashOf d, d.length, keyOf (fpOf (.file p m d))⟩
  | _ => none

def render (hashOf : List β → H) (lb : LBackup β) : Backup H β :=
  ⟨lb.name, some (lb.es.filterMap (recG hashOf lb.stored)), lb.es.map (stripE lb.stored), true⟩

/-- A file whose record is `own` for the restore plan: empty, or stored here. -/
def isOwnE (stored : String → Bool) : Entry β → Bool
  | .file p _ d => d.isEmpty || stored p
  | _ => false

/-- A non-empty file whose bytes live elsewhere. -/
def isExtE (stored : String → Bool) : Entry β → Bool
  | .file p _ d => !d.isEmpty && !stored p
  | _ => false

def contentE : Entry β → List β
  | .file _ _ d => d
  | _ => []

def keyE (e : Entry β) : String := keyOf (fpOf e)

end Vsb.Restore
