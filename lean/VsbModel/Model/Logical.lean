import VsbModel.Model.SelfContained

/-
M8c — a backup of a group as `vsb backup` writes it, described by the tree the walk read (`es`: one entry per
node, file entries with their full content) and by which file contents this backup stores itself (`stored`,
by archive path); every other non-empty file is recorded `extern` and archived without data.  `render` is the
backup as `vsb restore` sees it.
-/
namespace Vsb.Restore
variable {H β : Type} [DecidableEq H]

structure LBackup (β : Type) where
  name : String
  es : List (Entry β)
  stored : String → Bool
  /-- what follows a stored file's content in its archive entry: the tar entry is as long as the size `fstat` announced,
  the record describes the bytes actually read (`FileReader`, C15) - zeros when the file shrank while it was archived,
  nothing otherwise -/
  pad : String → List β

/-- The archive entry written for a node: data only for files stored here (followed by the padding, if any). -/
def padded (pad : String → List β) (p : String) (d : List β) : List β := d ++ pad p

def stripE (stored : String → Bool) (pad : String → List β) : Entry β → Entry β
  | .file p m d => .file p m (if stored p then padded pad p d else [])
  | e => e

theorem padded_eq (pad : String → List β) (p : String) (d : List β) : ∃ tail, padded pad p d = d ++ tail := ⟨pad p, rfl⟩

/-- The manifest line written for a file: `unique` iff stored here (`BackupInstance::add_file` stores a file itself only when
`fstat` announced a non-zero size and neither its identity nor the hash of a first reading was known; the content may
still be empty then, when the file was cut to nothing before it was read). -/
def recG (hashOf : List β → H) (stored : String → Bool) : Entry β → Option (MRec H)
  | .file p m d => some ⟨stored p, hashOf d, d.length, keyOf (fpOf (.file p m d))⟩
  | _ => none

def render (hashOf : List β → H) (lb : LBackup β) : Backup H β :=
  ⟨lb.name, some (lb.es.filterMap (recG hashOf lb.stored)), lb.es.map (stripE lb.stored lb.pad), true⟩

/-- A file whose record is `own` for the restore plan: empty, or stored here. -/
def isOwnE (stored : String → Bool) : Entry β → Bool
  | .file p _ d => d.isEmpty || stored p
  | _ => false

/-- A non-empty file whose bytes live elsewhere. -/
def isExtE (stored : String → Bool) : Entry β → Bool
  | .file p _ d => !d.isEmpty && !stored p
  | _ => false

def contentE : Entry β → List β
  | .file _ _ d => d
  | _ => []

def keyE (e : Entry β) : String := keyOf (fpOf e)

/-! ### Reading a stored group back into its logical description (used by the correspondence run to evaluate the
hypotheses of `restore_exact` on real storages) -/

/-- `contentOf hash size`: the content with that hash and length, when known. -/
def logicalOf (contentOf : H → Nat → Option (List β)) (b : Backup H β) : Option (LBackup β) :=
  match b.manifest with
  | none => none
  | some recs =>
    let keyOfTar : String → String := fun p => keyOf ((tarPathToFile p).getD [])
    let stored : String → Bool := fun p => recs.any (fun (r : MRec H) => r.unique && r.path == keyOfTar p)
    -- a stored entry may be longer than its record says (C15): the content is its first `size` bytes
    let sizeOf : String → List β → Nat := fun p d => match recs.find? (fun (r : MRec H) => r.unique && r.path == keyOfTar p) with
      | some r => r.size
      | none => d.length
    let pad : String → List β := fun p => match b.archive.find? (fun e => match e with | .file q _ _ => q == p | _ => false) with
      | some (.file _ _ d) => d.drop (sizeOf p d)
      | _ => []
    let es := b.archive.mapM (fun e => match e with
      | .file p m d =>
        if stored p then some (Entry.file p m (d.take (sizeOf p d)))
        else match recs.find? (fun (r : MRec H) => r.path == keyOfTar p) with
          | some r => if r.size = 0 then some (Entry.file p m []) else (contentOf r.hash r.size).map (fun c => Entry.file p m c)
          | none => none
      | e => some e)
    es.map (fun es => ⟨b.name, es, stored, pad⟩)

def backupEq [DecidableEq β] (a b : Backup H β) : Bool :=
  a.name == b.name && decide (a.manifest = b.manifest) && decide (a.archive = b.archive) && a.archiveComplete == b.archiveComplete

/-- Executable form of `ResolvableL` (sound: `resolvableCheck_sound`). -/
def resolvableCheck [DecidableEq β] (lg : List (LBackup β)) (t : Nat) (lt : LBackup β) : Bool :=
  lt.es.all (fun b => !isExtE lt.stored b ||
    (lt.es.any (fun a => isOwnE lt.stored a && decide (contentE a = contentE b)) ||
     (List.range t).any (fun j => match lg[j]? with
       | some lb => lb.es.any (fun a => match a with
         | .file p _ d => lb.stored p && decide (d = contentE b)
         | _ => false)
       | none => false)))

/-- All hypotheses of `restore_exact` about a stored group, evaluated: every backup up to the target reads back
into a logical description that renders to exactly what is stored and is well formed, and the target is resolvable. -/
def generalCheck [DecidableEq β] (hashOf : List β → H) (contentOf : H → Nat → Option (List β)) (group : List (Backup H β)) (t : Nat) :
    Option (List (LBackup β)) :=
  match (group.take (t + 1)).mapM (logicalOf contentOf) with
  | none => none
  | some lg =>
    if lg.length = t + 1 ∧ (List.range (t + 1)).all (fun j => match lg[j]?, group[j]? with
        | some lb, some b => backupEq (render hashOf lb) b && wfCheck lb.es
        | _, _ => false) then
      match lg[t]? with
      | some lt => if resolvableCheck lg t lt then some lg else none
      | none => none
    else none

end Vsb.Restore
