/-
M2 — model of `backuping/backuper.rs`: `Backuper::{run, prepare, run_command, backup_path,
backup_parent_directories, backup_directory, backup_file, backup_symlink, handle_access_error,
handle_type_change, handle_path_error}` over an abstract source tree whose nodes carry the outcome
of every system call the walk performs on them.
-/
namespace Vsb.Walk

abbrev Path := List String     -- components below `/`

/-- Classification of an I/O error relative to the call that failed. -/
inductive Err where
  | notFound      -- ENOENT
  | typeChange    -- the call's own "it changed its type" errno: ELOOP (open), ENOTDIR (readdir), EINVAL (readlink)
  | other         -- EACCES, EIO, …
  deriving Repr, DecidableEq

/-- A child entry of a directory: name, whether the name is valid UTF-8 (`filter.check` needs it),
whether the full path passes `validate_path` (UTF-8 and no CR/LF), and the node. -/
inductive Node where
  | lstatFails (e : Err)
  | file (openErr fstatErr : Option Err) (stillFile archiveOk : Bool)
  | dir (readdirErr entryErr : Option Err) (addOk : Bool) (children : List (String × Bool × Bool × Node))
  | symlink (readlinkErr : Option Err) (addOk : Bool)
  | special                       -- fifo, socket, block/char device
  deriving Repr

inductive Ev where
  | archDir (p : Path)
  | archFile (p : Path)
  | archLink (p : Path)
  | error (p : Path)              -- `error!` + `ok = false`
  | warn (p : Path)               -- `warn!` only
  | before (item : Nat)           -- hook executed
  | after (item : Nat)
  | hookFailed (item : Nat)       -- reported at error level, `ok = false`
  | itemError (item : Nat)        -- `prepare` failed: missing / relative / overlapping item
  deriving Repr, DecidableEq

/-- Result of a walk fragment: events in order, whether an error cleared `ok`, whether an `Err`
aborted the run (archive write failure). -/
structure Out where
  evs : List Ev := []
  ok : Bool := true
  abort : Bool := false
  deriving Repr

def Out.andThen (a : Out) (b : Unit → Out) : Out :=
  if a.abort then a else
    let r := b ()
    { evs := a.evs ++ r.evs, ok := a.ok && r.ok, abort := r.abort }

def errorAt (p : Path) : Out := { evs := [.error p], ok := false }
def warnAt (p : Path) : Out := { evs := [.warn p] }
def abortOut : Out := { abort := true }

/-- `handle_type_change` -/
def typeChange (p : Path) (top : Bool) : Out := if top then errorAt p else warnAt p

/-- `handle_access_error`; `tc` = the call has a type-change errno. -/
def accessError (p : Path) (top : Bool) (e : Err) (tc : Bool) : Out :=
  if tc && e = .typeChange then typeChange p top
  else if e = .notFound && !top then warnAt p
  else errorAt p

mutual
/-- `backup_path` after `validate_path` and (for top-level paths) the parents; `rel` is the
item-relative path used by the filter. -/
def walkNode (allow : Path → Bool) (p rel : Path) (top : Bool) : Node → Out
  | .lstatFails e => accessError p top e false
  | .file openErr fstatErr stillFile archiveOk =>
    match openErr with
    | some e => accessError p top e true
    | none =>
      match fstatErr with
      | some e => accessError p top e false
      | none =>
        if !stillFile then typeChange p top
        else if archiveOk then { evs := [.archFile p] } else abortOut
  | .dir readdirErr entryErr addOk children =>
    match readdirErr with
    | some e => accessError p top e true
    | none =>
      match entryErr with
      | some e => accessError p top e false
      | none =>
        let self : Out := if top && p.isEmpty then {} else if addOk then { evs := [.archDir p] } else abortOut
        self.andThen (fun _ => walkChildren allow p rel children)
  | .symlink readlinkErr addOk =>
    match readlinkErr with
    | some e => accessError p top e true
    | none => if addOk then { evs := [.archLink p] } else abortOut
  | .special => if top then errorAt p else warnAt p

/-- The loop over directory entries in `backup_directory`. -/
def walkChildren (allow : Path → Bool) (p rel : Path) : List (String × Bool × Bool × Node) → Out
  | [] => {}
  | (name, utf8, pathValid, node) :: rest =>
    let one : Out :=
      if !utf8 then errorAt (p ++ [name])                       -- `filter.check` fails: "Invalid path"
      else if allow (rel ++ [name]) then
        if !pathValid then errorAt (p ++ [name])                -- `validate_path`
        else walkNode allow (p ++ [name]) (rel ++ [name]) false node
      else {}                                                   -- filtered out
    one.andThen (fun _ => walkChildren allow p rel rest)
end

/-! ### Items -/

inductive Hook where
  | absent | succeeds | fails
  deriving Repr, DecidableEq

/-- Outcome of handling one ancestor directory of a top-level path. -/
inductive Parent where
  | ok | lstatErr | notDir | addFails
  deriving Repr, DecidableEq

structure Item where
  before : Hook := .absent
  after : Hook := .absent
  /-- `BackupItemConfig::path()`: the resolved absolute path, or `none` (missing, relative, …). -/
  resolved : Option Path := none
  pathValid : Bool := true
  node : Node := .special
  allow : Path → Bool := fun _ => true

structure St where
  roots : List Path := []
  rootParents : List Path := []
  ok : Bool := true

def isPrefix (a b : Path) : Bool := a.isPrefixOf b

structure PRes where
  evs : List Ev
  cache : List Path
  /-- `some true`: go on; `some false`: item skipped with an error; `none`: `Err` (abort) -/
  go : Option Bool

/-- The loop of `backup_parent_directories` over the ancestors of `p` (`dropping_back(1)`: the path
itself is not a parent); `cache` is `root_parents`. -/
def parentsLoop (parentOf : Path → Parent) (p : Path) : Path → List String → List Path → List Ev → PRes
  | _, [], cache, evs => ⟨evs, cache, some true⟩
  | _, [_], cache, evs => ⟨evs, cache, some true⟩
  | pre, c :: c2 :: rest, cache, evs =>
    let parent := pre ++ [c]
    if cache.contains parent then parentsLoop parentOf p parent (c2 :: rest) cache evs
    else match parentOf parent with
      | .ok => parentsLoop parentOf p parent (c2 :: rest) (cache ++ [parent]) (evs ++ [.archDir parent])
      | .lstatErr => ⟨evs ++ [.error p], cache, some false⟩
      | .notDir => ⟨evs ++ [.error p], cache, some false⟩
      | .addFails => ⟨evs, cache, none⟩

def walkParents (parentOf : Path → Parent) (p : Path) (cache : List Path) : PRes :=
  parentsLoop parentOf p [] p cache []

def hookOut (i : Nat) (h : Hook) (isBefore : Bool) : Out :=
  match h with
  | .absent => {}
  | .succeeds => { evs := [if isBefore then .before i else .after i] }
  | .fails => { evs := [if isBefore then .before i else .after i, .hookFailed i], ok := false }

def itemErr (i : Nat) : Out := { evs := [.itemError i], ok := false }

/-- `backup_path(path, top_level = true)` for a resolved item path. -/
def walkTop (parentOf : Path → Parent) (it : Item) (p : Path) (cache : List Path) : Out × List Path :=
  if !it.pathValid then (errorAt p, cache)                 -- `validate_path`
  else
    let r := walkParents parentOf p cache
    match r.go with
    | none => ({ evs := r.evs, abort := true }, r.cache)
    | some false => ({ evs := r.evs, ok := false }, r.cache)
    | some true =>
      let w := walkNode it.allow p [] true it.node
      ({ evs := r.evs ++ w.evs, ok := w.ok, abort := w.abort }, r.cache)

def overlaps (roots : List Path) (p : Path) : Bool := roots.any (fun r => isPrefix r p || isPrefix p r)

/-- `prepare` + `backup_path`, or `handle_path_error` when the item cannot be prepared. -/
def itemBody (parentOf : Path → Parent) (i : Nat) (it : Item) (st : St) : Out × St :=
  match it.resolved with
  | none => (itemErr i, st)
  | some p =>
    if overlaps st.roots p then (itemErr i, st)
    else
      let r := walkTop parentOf it p st.rootParents
      (r.1, { st with roots := st.roots ++ [p], rootParents := r.2 })

/-- One iteration of the loop in `Backuper::run`: events, new state, and whether the run aborts
(`result?`).  The `after` hook runs even when the body aborted. -/
def runItem (parentOf : Path → Parent) (i : Nat) (it : Item) (st : St) : List Ev × St × Bool :=
  let b := hookOut i it.before true
  let body := itemBody parentOf i it st
  let a := hookOut i it.after false
  (b.evs ++ body.1.evs ++ a.evs, { body.2 with ok := body.2.ok && b.ok && body.1.ok && a.ok }, body.1.abort)

/-- `Backuper::run` as a function of the remaining items: events, and `some ok` when every item was
processed, `none` when an `Err` ended the run. -/
def trace (parentOf : Path → Parent) : Nat → List Item → St → List Ev × Option Bool
  | _, [], st => ([], some st.ok)
  | i, it :: rest, st =>
    let r := runItem parentOf i it st
    if r.2.2 then (r.1, none) else
      let t := trace parentOf (i + 1) rest r.2.1
      (r.1 ++ t.1, t.2)

/-- `Backuper::run`: events, and `some ok` when `finish` is reached and succeeds (`finishOk` = the
outcome of `BackupInstance::finish`), `none` when the run ends with `Err` (nothing is published). -/
def run (parentOf : Path → Parent) (items : List Item) (finishOk : Bool := true) : List Ev × Option Bool :=
  let t := trace parentOf 0 items {}
  (t.1, match t.2 with
    | some ok => if finishOk then some ok else none
    | none => none)

end Vsb.Walk
