import VsbModel.Model.FsTrace
/-
M9 (persistence part) — what a power loss may leave behind, for the objects a run creates.

The file-system model is the one the property grants: file data persists only by `fsync` of the file,
directory entries only by `fsync` of the directory.  `PState` tracks, for the temporary directory of
the run, how many writes each file has received (`vol`) and how many of them are durable (`dur`), which
entries of the temporary directory are durable, whether the rename has happened and whether it is
durable in the group directory, and which removals of older things have been issued.
-/
namespace Vsb.Crash
open Vsb.FsTrace

structure PFile where
  path : Path
  vol : Nat := 0        -- writes performed
  dur : Nat := 0        -- writes known durable
  deriving Repr, DecidableEq

structure PState where
  tmp : Option Path := none
  files : List PFile := []            -- files created in the temporary directory
  entriesDur : List Path := []        -- entries of the temporary directory that are durable
  renamed : Bool := false
  renameDur : Bool := false
  removed : List Path := []           -- removals issued after the rename (older groups)
  success : Bool := false             -- exit status 0 reported
  deriving Repr

def pstep (s : PState) (op : Op) : PState :=
  match op with
  | .mkdir p => if p.length = 2 then { s with tmp := some p } else s
  | .create p => { s with files := s.files ++ [{ path := p }] }
  | .write p => { s with files := s.files.map (fun f => if f.path = p then { f with vol := f.vol + 1 } else f) }
  | .fsyncFile p => { s with files := s.files.map (fun f => if f.path = p then { f with dur := f.vol } else f) }
  | .fsyncDir p =>
    if some p = s.tmp then { s with entriesDur := s.files.map (·.path) }
    else if s.renamed = true ∧ s.tmp.map List.dropLast = some p then { s with renameDur := true }
    else s
  | .rename _ _ => { s with renamed := true }
  | .remove p => if s.renamed then { s with removed := s.removed ++ [p] } else s
  | .exit status => if status = 0 then { s with success := true } else s
  | _ => s

def psem (t : List Op) : PState := t.foldl pstep {}

/-- A state the disk may be in after a power loss. -/
structure Recovered where
  finalVisible : Bool                 -- the backup is reachable under its final name
  entries : List Path                 -- entries of its directory
  content : Path → Nat                -- how many of the writes of each file survived
  removedApplied : List Path          -- which of the issued removals took effect

/-- The recovery relation: durable things are there; volatile things may or may not be. -/
def recovers (s : PState) (r : Recovered) : Prop :=
  (s.renameDur = true → r.finalVisible = true) ∧ (r.finalVisible = true → s.renamed = true) ∧
  (∀ p ∈ s.entriesDur, p ∈ r.entries) ∧ (∀ p ∈ r.entries, p ∈ s.files.map (·.path)) ∧
  (∀ f ∈ s.files, f.dur ≤ r.content f.path ∧ r.content f.path ≤ f.vol) ∧
  (∀ p ∈ r.removedApplied, p ∈ s.removed)

/-- **Safe**: a final-named backup has all its files, completely. -/
def Safe (s : PState) (r : Recovered) : Prop :=
  r.finalVisible = true → 2 ≤ s.files.length ∧ ∀ f ∈ s.files, f.path ∈ r.entries ∧ r.content f.path = f.vol

/-- **No double loss**: either the new backup is there or nothing older is gone. -/
def NoDoubleLoss (r : Recovered) : Prop := r.finalVisible = true ∨ r.removedApplied = []

end Vsb.Crash
