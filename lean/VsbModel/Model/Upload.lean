import VsbModel.Model.Split
import VsbModel.Model.Proto

/-
M14b — composition: what the encryptor puts on the data channel → `stream_splitter` → the provider's
`upload_file` (`Storage::upload_backup` without the archiver/gpg stages, which are the message list).
-/
namespace Vsb.Upload
open Vsb.Split Vsb.Proto

/-- How the provider's `for result in chunk_streams.iter()` loop sees the end of the conversation. -/
def endingOf {α} (evs : List (Ev α)) : Ending Nat :=
  let v := view evs
  match v.final, v.error with
  | some (total, c), _ => .final total c
  | none, some _ => .error
  | none, none => .hangup

/-- Request bodies, oldest first, as the provider reads them (a body closed by an upstream error ends
normally: the reader sees a hang-up, i.e. end of body). -/
def bodyBytes {α} (evs : List (Ev α)) : List (List α) := (bodiesOf evs).map (·.bytes)

/-- `Storage::upload_backup` from the data channel on: splitter with the provider's request-size limit,
then the provider protocol under the server script. -/
def pipeline {α} (p : Provider) (c : Cfg α Nat) (script : Nat → Resp) (srv : Srv α)
    (max : Option Nat) (msgs : List (Msg α)) : Out α :=
  let evs := (splitter max none msgs).1
  upload p c script srv (bodyBytes evs) (endingOf evs)

end Vsb.Upload
