/-
M5 — model of `backuping/backup.rs`: `load_backups_metadata`, `BackupInstance::deduplicate`,
`add_file` (for files that do not change while they are read; M4/C15 treats changing files).

`H` = content hash, `F` = fingerprint (device, inode, mtime_ns), `P` = path.  A file event is what
the walk hands to `add_file`: path, fingerprint, `fstat` size and the hash of the file's bytes.
-/
namespace Vsb.Dedup

structure Rec (H F P : Type) where
  unique : Bool
  hash : H
  fp : F
  size : Nat
  path : P
  deriving Repr, DecidableEq

structure FileEv (H F P : Type) where
  path : P
  fp : F
  size : Nat
  hash : H
  deriving Repr, DecidableEq

variable {H F P : Type} [DecidableEq H] [DecidableEq F] [DecidableEq P]

/-- `last_state.get(path)`: the map was filled by `insert` in manifest order, so the **last** record
of a path wins. -/
def lookupLast (l : List (Rec H F P)) (p : P) : Option (Rec H F P) :=
  l.reverse.find? (fun r => r.path = p)

/-- Outcome of `add_file` for one file: the manifest record, the updated `extern_hashes`, and how
many times the file's content was read (0 = not at all, 1 = hashing pass, 2 = hashing + archiving). -/
structure Step (H F P : Type) where
  record : Rec H F P
  known : List H
  reads : Nat

/-- `deduplicate` + the rest of `add_file`. -/
def dedupOne (emptyHash : H) (known : List H) (last : Option (List (Rec H F P))) (e : FileEv H F P) : Step H F P :=
  if e.size = 0 then ⟨⟨false, emptyHash, e.fp, 0, e.path⟩, known, 0⟩
  else
    match last.bind (lookupLast · e.path) with
    | some r =>
      if r.fp = e.fp then ⟨⟨false, r.hash, e.fp, e.size, e.path⟩, known, 0⟩
      else if e.hash ∈ known then ⟨⟨false, e.hash, e.fp, e.size, e.path⟩, known, 1⟩
      else ⟨⟨true, e.hash, e.fp, e.size, e.path⟩, e.hash :: known, 2⟩
    | none =>
      if e.hash ∈ known then ⟨⟨false, e.hash, e.fp, e.size, e.path⟩, known, 1⟩
      else ⟨⟨true, e.hash, e.fp, e.size, e.path⟩, e.hash :: known, 2⟩

/-- All files of one run, in walk order. -/
def runFiles (emptyHash : H) (known : List H) (last : Option (List (Rec H F P))) :
    List (FileEv H F P) → List (Step H F P)
  | [] => []
  | e :: es =>
    let s := dedupOne emptyHash known last e
    s :: runFiles emptyHash s.known last es

/-- A group as `load_backups_metadata` sees it: per earlier backup the manifest, or `none` when it
cannot be read. -/
abbrev Loaded (H F P : Type) := List (Option (List (Rec H F P)))

def uniques (rs : List (Rec H F P)) : List H := (rs.filter (·.unique)).map (·.hash)

/-- `extern_hashes`: unique hashes of every readable earlier backup of the group. -/
def loadKnown (g : Loaded H F P) : List H :=
  g.flatMap (fun b => match b with
    | some rs => uniques rs
    | none => [])

/-- `last_state`: the manifest of the group's newest backup, if it is the last one that loaded. -/
def loadLast (g : Loaded H F P) : Option (List (Rec H F P)) :=
  match g.getLast? with
  | some (some rs) => some rs
  | _ => none

/-- The manifest a run writes when it appends to group `g`. -/
def runBackup (emptyHash : H) (g : Loaded H F P) (es : List (FileEv H F P)) : List (Step H F P) :=
  runFiles emptyHash (loadKnown g) (loadLast g) es

def records (ss : List (Step H F P)) : List (Rec H F P) := ss.map (·.record)

/-- What `load_backups_metadata` gets to see: manifest `i` is readable iff `mask[i]`. -/
def view : List (List (Rec H F P)) → List Bool → Loaded H F P
  | rs :: rest, m :: ms => (if m then some rs else none) :: view rest ms
  | rs :: rest, [] => some rs :: view rest []
  | [], _ => []

def keepMasked {α} : List α → List Bool → List α
  | x :: xs, k :: ks => if k then x :: keepMasked xs ks else keepMasked xs ks
  | xs, [] => xs
  | [], _ => []

end Vsb.Dedup
