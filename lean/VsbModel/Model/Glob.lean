/-
M1 (glob part) — model of `globset::GlobBuilder::new(..).literal_separator(true).backslash_escape(true)
.build()?.compile_matcher()` (globset 0.4.15) as used by `backuping/filter.rs`: the glob parser
(tokens) and the meaning of the regex the tokens are translated to, matched against the **bytes** of
the path (the regex is compiled in byte mode `(?-u)`, `dot_matches_new_line`).

A non-ASCII class member is turned by globset into a class of its individual UTF-8 bytes (`byteRanges`).
-/
namespace Vsb.Glob

abbrev Bytes := List Nat

/-- UTF-8 encoding of one scalar value. -/
def utf8 (c : Char) : Bytes := c.toString.toUTF8.toList.map (·.toNat)

/-- Tokens that may occur inside `{..}` (alternates cannot nest). -/
inductive Tok0 where
  | lit (c : Char)
  | any                    -- `?`
  | zeroOrMore             -- `*`
  | recPrefix              -- leading `**/`
  | recSuffix              -- trailing `/**`
  | recZeroOrMore          -- `/**/`
  | cls (negated : Bool) (ranges : List (Char × Char))
  deriving Repr, DecidableEq

inductive Tok where
  | t (t : Tok0)
  | alts (alternatives : List (List Tok0))
  deriving Repr, DecidableEq

/-! ### Parser -/

structure PState where
  outer : List Tok := []                          -- reversed
  alts : Option (List (List Tok0)) := none        -- open alternation: alternatives, newest first, each reversed
  prev : Option Char := none
  cur : Option Char := none
  deriving Repr

def PState.depth (s : PState) : Nat := 1 + (s.alts.map List.length).getD 0

def PState.push (s : PState) (t : Tok0) : PState :=
  match s.alts with
  | some (a :: rest) => { s with alts := some ((t :: a) :: rest) }
  | _ => { s with outer := .t t :: s.outer }

def PState.haveTokens (s : PState) : Bool :=
  match s.alts with
  | some (a :: _) => !a.isEmpty
  | _ => !s.outer.isEmpty

/-- `pop_token` on the innermost token list (only ever called when it is non-empty). -/
def PState.pop (s : PState) : Option (Tok × PState) :=
  match s.alts with
  | some ((t :: a) :: rest) => some (.t t, { s with alts := some (a :: rest) })
  | some _ => none
  | none => match s.outer with
    | t :: rest => some (t, { s with outer := rest })
    | [] => none

def PState.bump (s : PState) (c : Option Char) : PState := { s with prev := s.cur, cur := c }

def isSep (c : Char) : Bool := c = '/'

/-- `parse_class` after the `[`: returns the token and the remaining input. -/
def parseClass (s : PState) (input : List Char) : Except String (PState × List Char) :=
  let (negated, s, input) := match input with
    | '!' :: rest => (true, s.bump (some '!'), rest)
    | '^' :: rest => (true, s.bump (some '^'), rest)
    | _ => (false, s, input)
  let rec loop (fuel : Nat) (s : PState) (input : List Char) (ranges : List (Char × Char)) (first inRange : Bool) :
      Except String (PState × List Char) :=
    match fuel with
    | 0 => .error "fuel"
    | fuel+1 =>
      match input with
      | [] => .error "UnclosedClass"
      | c :: rest =>
        let s := s.bump (some c)
        if c = ']' then
          if first then loop fuel s rest (ranges ++ [(']', ']')]) false inRange
          else
            let ranges := if inRange then ranges ++ [('-', '-')] else ranges
            .ok (s.push (.cls negated ranges), rest)
        else if c = '-' then
          if first then loop fuel s rest (ranges ++ [('-', '-')]) false inRange
          else if inRange then
            match ranges.getLast? with
            | some (lo, _) => if '-' < lo then .error "InvalidRange" else
                loop fuel s rest (ranges.dropLast ++ [(lo, '-')]) false false
            | none => .error "unreachable"
          else loop fuel s rest ranges false true
        else
          if inRange then
            match ranges.getLast? with
            | some (lo, _) => if c < lo then .error "InvalidRange" else
                loop fuel s rest (ranges.dropLast ++ [(lo, c)]) false false
            | none => .error "unreachable"
          else loop fuel s rest (ranges ++ [(c, c)]) false false
  loop (input.length + 1) s input [] true false

/-- `parse_star` after the first `*` was bumped; `prev` is the character before it. -/
def parseStar (s : PState) (input : List Char) : Except String (PState × List Char) :=
  let prev := s.prev
  match input with
  | '*' :: rest =>
    let s := s.bump (some '*')
    let peek := rest.head?
    if !s.haveTokens then
      if !(peek.map isSep).getD true then .ok ((s.push .zeroOrMore).push .zeroOrMore, rest)
      else
        -- RecursivePrefix; consumes the separator (or reaches the end)
        match rest with
        | c :: rest' => .ok ((s.push .recPrefix).bump (some c), rest')
        | [] => .ok ((s.push .recPrefix).bump none, [])
    else if !((prev.map isSep).getD false) && (s.depth ≤ 1 || (prev ≠ some ',' && prev ≠ some '{')) then
      .ok ((s.push .zeroOrMore).push .zeroOrMore, rest)
    else
      -- `**` directly after a separator (or after `,`/`{` inside alternates)
      let fin : Option (Bool × PState × List Char) :=
        match rest with
        | [] => some (true, s.bump none, [])
        | c :: rest' =>
          if (c = ',' || c = '}') && s.depth ≥ 2 then some (true, s, rest)
          else if isSep c then some (false, s.bump (some c), rest')
          else none
      match fin with
      | none => .ok ((s.push .zeroOrMore).push .zeroOrMore, rest)
      | some (isSuffix, s, rest) =>
        match s.pop with
        | none => .error "pop on empty"
        | some (.t .recPrefix, s) => .ok (s.push .recPrefix, rest)
        | some (.t .recSuffix, s) => .ok (s.push .recSuffix, rest)
        | some (_, s) => .ok (s.push (if isSuffix then .recSuffix else .recZeroOrMore), rest)
  | _ => .ok (s.push .zeroOrMore, input)

def parseLoop : Nat → PState → List Char → Except String PState
  | 0, _, _ => .error "fuel"
  | _, s, [] => .ok (s.bump none)
  | fuel+1, s, c :: rest =>
    let s := s.bump (some c)
    if c = '?' then parseLoop fuel (s.push .any) rest
    else if c = '*' then
      match parseStar s rest with
      | .ok (s, rest) => parseLoop fuel s rest
      | .error e => .error e
    else if c = '[' then
      match parseClass s rest with
      | .ok (s, rest) => parseLoop fuel s rest
      | .error e => .error e
    else if c = '{' then
      if s.depth > 1 then .error "NestedAlternates" else parseLoop fuel { s with alts := some [[]] } rest
    else if c = '}' then
      -- pop_alternate: an unmatched `}` yields an empty alternation, which matches the empty string
      let alts := (s.alts.getD []).map List.reverse
      parseLoop fuel { s with alts := none, outer := .alts alts :: s.outer } rest
    else if c = ',' then
      if s.depth ≤ 1 then parseLoop fuel (s.push (.lit ',')) rest
      else parseLoop fuel { s with alts := s.alts.map (fun a => [] :: a) } rest
    else if c = '\\' then
      match rest with
      | [] => .error "DanglingEscape"
      | e :: rest' => parseLoop fuel ((s.bump (some e)).push (.lit e)) rest'
    else parseLoop fuel (s.push (.lit c)) rest

/-- `GlobBuilder::build`: tokens or a parse error. -/
def parse (glob : List Char) : Except String (List Tok) :=
  match parseLoop (glob.length + 1) {} glob with
  | .error e => .error e
  | .ok s => if s.depth > 1 then .error "UnclosedAlternates" else .ok s.outer.reverse

/-! ### Matching: the meaning of the generated regex over bytes -/

def slash : Nat := 47

/-- The byte class globset writes for a range list: every bound is written as the escaped bytes of its UTF-8 encoding
(`char_to_escaped_literal`), and the regex is compiled in byte mode - so `lo-hi` contributes the bytes of `lo` but the
last, the byte range from the last byte of `lo` to the first byte of `hi`, and the remaining bytes of `hi`; a single
character contributes each of its bytes.  For ASCII bounds this is the range itself. -/
def byteRanges (ranges : List (Char × Char)) : List (Nat × Nat) :=
  ranges.flatMap (fun r =>
    if r.1 = r.2 then (utf8 r.1).map (fun b => (b, b))
    else
      let l := utf8 r.1
      let h := utf8 r.2
      l.dropLast.map (fun b => (b, b)) ++ [(l.getLast?.getD 0, h.head?.getD 0)] ++ h.tail.map (fun b => (b, b)))

def inRanges (b : Nat) (ranges : List (Char × Char)) : Bool :=
  (byteRanges ranges).any (fun r => r.1 ≤ b && b ≤ r.2)

/-- Remainders after consuming any number of non-`/` bytes (`[^/]*`). -/
def starRems : Bytes → List Bytes
  | [] => [[]]
  | b :: rest => (b :: rest) :: (if b ≠ slash then starRems rest else [])

/-- Remainders that directly follow some `/` of the input (`.*/`). -/
def afterSlash : Bytes → List Bytes
  | [] => []
  | b :: rest => (if b = slash then [rest] else []) ++ afterSlash rest

/-- All suffixes (`.*`). -/
def suffixes : Bytes → List Bytes
  | [] => [[]]
  | b :: rest => (b :: rest) :: suffixes rest

/-- All ways a token can consume a prefix of `s`: the list of possible remainders. -/
def Tok0.step (t : Tok0) (s : Bytes) : List Bytes :=
  match t with
  | .lit c => let bs := utf8 c; if bs.isPrefixOf s then [s.drop bs.length] else []
  | .any => match s with                 -- `[^/]`
    | b :: rest => if b ≠ slash then [rest] else []
    | [] => []
  | .zeroOrMore => starRems s            -- `[^/]*`
  | .recPrefix => s :: afterSlash s      -- `(?:/?|.*/)`
  | .recSuffix =>                        -- `/.*`
    match s with
    | b :: rest => if b = slash then suffixes rest else []
    | [] => []
  | .recZeroOrMore =>                    -- `(?:/|/.*/)`
    match s with
    | b :: rest => if b = slash then rest :: afterSlash rest else []
    | [] => []
  | .cls negated ranges => match s with
    | b :: rest => if inRanges b ranges != negated then [rest] else []
    | [] => []

def seq0 (ts : List Tok0) (s : Bytes) : List Bytes :=
  ts.foldl (fun rems t => rems.flatMap t.step) [s]

def Tok.step (t : Tok) (s : Bytes) : List Bytes :=
  match t with
  | .t t0 => t0.step s
  | .alts as =>
    let parts := as.filter (fun a => !a.isEmpty)      -- `empty_alternates = false`
    if parts.isEmpty then [s] else parts.flatMap (fun a => seq0 a s)

/-- Whole-string (anchored) match of a token list. -/
def matchTokens (ts : List Tok) (s : Bytes) : Bool :=
  if ts = [.t .recPrefix] then true      -- the entire glob is `**`: `^.*$`
  else (ts.foldl (fun rems t => rems.flatMap t.step) [s]).any (·.isEmpty)

def pathBytes (p : String) : Bytes := p.toUTF8.toList.map (·.toNat)

end Vsb.Glob
