import VsbModel.Model.Split

/-
M13 — the decision logic of `storage/encryptor.rs`: what the gpg stdout reader returns (`stdout_reader`) and
which terminal message `Encryptor::close` puts on the data channel (`close`, `finish`, `Drop`).

The reader returns the checksum only if reading gpg's output and hashing/forwarding it succeeded, gpg wrote
nothing to stderr, and gpg exited successfully (exit status 0, not killed by a signal).  `close` sends exactly
one terminal message, the first time it is called: the checksum if the reader returned one *and* the caller's
own result (archiver, flush of gpg's stdin) is `Ok`; an error message otherwise.
-/
namespace Vsb.Encryptor
open Vsb.Split

/-- How the gpg child ended. -/
inductive Exit where
  | code (n : Nat)
  | signal (n : Nat)
  deriving Repr, DecidableEq

def Exit.success : Exit → Bool
  | .code 0 => true
  | _ => false

/-- `stdout_reader`: `readOk` = `read_data` returned the hash (no read error, no send failure);
`stderrEmpty` = gpg printed nothing; then the exit status is examined. -/
def readerResult (readOk : Bool) (stderrEmpty : Bool) (exit : Exit) (checksum : Nat) : Option Nat :=
  if !readOk then none            -- gpg is terminated, the error is returned
  else if !stderrEmpty then none  -- "gpg error: ..."
  else if !exit.success then none -- "gpg process has terminated with an error exit code"
  else some checksum

structure St where
  stdinOpen : Bool := true
  readerPending : Bool := true     -- `stdout_reader.is_some()`
  result : Option Bool := none     -- the stored result (`true` = Ok)
  deriving Repr, DecidableEq

/-- `Encryptor::close(result)`: returns the new state, the message sent (if any) and the returned result.
`callerOk`: the result passed in (`finish(None)` = true; `finish(Some(err))`, a failed write, `Drop` = false);
`flushOk`: flushing the buffered stdin writer; `reader`: what joining the reader thread gives. -/
def close (st : St) (callerOk flushOk : Bool) (reader : Option Nat) : St × Option (Msg Nat) × Bool :=
  match st.result with
  | some r => (st, none, r)                                -- already closed: nothing is sent again
  | none =>
    let ok1 := if st.stdinOpen then callerOk && flushOk else callerOk
    if st.readerPending then
      match reader with
      | some c =>
        let msg : Msg Nat := if ok1 then .eof c else .err "error"
        ({ stdinOpen := false, readerPending := false, result := some ok1 }, some msg, ok1)
      | none => ({ stdinOpen := false, readerPending := false, result := some false }, some (.err "reader error"), false)
    else ({ st with stdinOpen := false, result := some ok1 }, none, ok1)

end Vsb.Encryptor
