/-
M4 — model of `util/file_reader.rs::FileReader` (`read`, `consume`) over an adversarial underlying
reader, and of the two passes `BackupInstance::add_file` makes over a file.

The underlying file is a list of chunks: each underlying `read(buf)` call delivers at most `buf.len()`
bytes of the first chunk (keeping the remainder for the next call); an empty chunk, or the end of the
list, is an end-of-file answer (`Ok(0)`).  Any behaviour of a concurrently changing file is some such
list.
-/
namespace Vsb.FileReader
variable {α : Type}

structure St (α : Type) where
  src : List (List α)        -- what the underlying reader will still deliver
  fed : List α := []         -- bytes given to the digest so far (`bytes_read = fed.length`)
  left : Nat                 -- `bytes_left`
  truncated : Bool := false
  deriving Repr

/-- Underlying `file.read(&mut buf[..n])` with `n > 0`. -/
def underlying (src : List (List α)) (n : Nat) : List α × List (List α) :=
  match src with
  | [] => ([], [])
  | [] :: rest => ([], rest)                         -- EOF answer
  | c :: rest =>
    if c.length ≤ n then (c, rest) else (c.take n, c.drop n :: rest)

/-- `FileReader::read` with a buffer of `bufLen` bytes: the bytes written into the buffer. -/
def St.read (s : St α) (zero : α) (bufLen : Nat) : St α × List α :=
  let n := min bufLen s.left
  if n = 0 then (s, [])
  else if s.truncated then ({ s with left := s.left - n }, List.replicate n zero)
  else
    let (data, src') := underlying s.src n
    if data.length = 0 then
      -- EOF before the declared size: pad with zeros from now on
      ({ s with src := src', truncated := true, left := s.left - n }, List.replicate n zero)
    else
      ({ s with src := src', fed := s.fed ++ data, left := s.left - data.length }, data)

/-- A consumer reading with the given buffer sizes (as `io::copy` / `read_to_end` do), stopping at the
first empty answer. -/
def St.drain (zero : α) : St α → List Nat → St α × List α
  | s, [] => (s, [])
  | s, b :: bs =>
    let (s', out) := s.read zero b
    if out.isEmpty then (s', []) else
      let (s'', rest) := St.drain zero s' bs
      (s'', out ++ rest)

/-- `FileReader::new(file, size)` + drain + `consume()`: (stream handed to the consumer,
`bytes_read`, bytes that were hashed). -/
def readFile (zero : α) (src : List (List α)) (size : Nat) (bufs : List Nat) : List α × Nat × List α :=
  let (s, out) := St.drain zero { src := src, left := size } bufs
  (out, s.fed.length, s.fed)

/-! ### `add_file`: hashing pass, then archiving pass -/

inductive Outcome (α : Type) where
  /-- `extern`: manifest (hash-of, size), empty archive entry -/
  | extern_ (hashed : List α) (size : Nat)
  /-- `unique`: manifest (hash-of, size) and the archive entry data (declared size = `fstat` size) -/
  | unique (hashed : List α) (size : Nat) (entry : List α)
  deriving Repr

/-- `pass1` / `pass2`: what the file delivers during the hashing pass and (after `seek(0)`) during the
archiving pass; `known` decides whether the first pass's content is already stored in the group. -/
def addFile (zero : α) (size : Nat) (pass1 pass2 : List (List α)) (bufs1 bufs2 : List Nat)
    (known : List α → Bool) : Outcome α :=
  if size = 0 then .extern_ [] 0
  else
    let (_, n1, h1) := readFile zero pass1 size bufs1
    if known h1 then .extern_ h1 n1
    else
      let (entry, n2, h2) := readFile zero pass2 size bufs2
      .unique h2 n2 entry

end Vsb.FileReader
