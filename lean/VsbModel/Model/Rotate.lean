import VsbModel.Model.Listing
/-
M6 — model of `Storage::create_backup` (group choice, names from the clock, removal of abandoned
temporaries), publication, and `backuping::gc_groups`, over the abstract storage of M7.

The names derived from the clock (`today` = `%Y.%m.%d`, `bname` = `%Y.%m.%d-%H:%M:%S` of
`Local::now()`) are inputs; chrono's formatting is exercised by the correspondence, not modelled.
-/
namespace Vsb.Rotate
open Vsb.Listing

/-- Decision of `create_backup` on the listed groups. -/
inductive Choice where
  | reuse (g : Group)        -- newest listed group has room
  | create (name : String)   -- open a new group named by today's date
  | exists_ (name : String)  -- "Unable to create new backup group: it already exists"
  deriving Repr, DecidableEq

def chooseGroup (groups : List Group) (maxPer : Nat) (today : String) : Choice :=
  match groups.getLast? with
  | some g =>
    if g.backups.length < maxPer then .reuse g
    else if groups.any (·.name == today) then .exists_ today else .create today
  | none => .create today   -- (no group can be named `today` in an empty list)

/-- `gc_groups`: names of the groups to delete, and the returned `ok`.
(`deleteFails` models `delete_backup_group` errors, which clear `ok`.) -/
def gcPlan (groups : List Group) (ok : Bool) (maxGroups : Nat) : List String :=
  if groups.length ≤ maxGroups then []
  else if !ok then []
  else (groups.take (groups.length - maxGroups)).map (·.name)

/-! ### Storage level -/

abbrev Storage := List REntry

def completeBackup (name : String) : GEntry :=
  { name := name, type := .dir, files := some [("data.tar.zst", .file), ("metadata.zst", .file)] }

/-- Add (or replace) an entry in a group directory. -/
def addToGroup (st : Storage) (group : String) (e : GEntry) : Storage :=
  st.map (fun r => if r.name = group then
    { r with entries := r.entries.map (fun es => es.filter (·.name ≠ e.name) ++ [e]) } else r)

def removeFromGroup (st : Storage) (group : String) (names : List String) : Storage :=
  st.map (fun r => if r.name = group then
    { r with entries := r.entries.map (fun es => es.filter (fun x => !names.contains x.name)) } else r)

def hasEntry (st : Storage) (group name : String) : Bool :=
  st.any (fun r => r.name = group && (r.entries.getD []).any (·.name = name))

/-- `rename(2)` of a directory onto `name` fails unless nothing is there or an empty directory is. -/
def renameBlocked (st : Storage) (group name : String) : Bool :=
  st.any (fun r => r.name = group && (r.entries.getD []).any (fun e =>
    e.name = name && !(e.type = .dir && e.files == some [])))

inductive RunRes where
  | failed (st : Storage) (why : String)                        -- `Err` before publication: exit 1
  | done (st : Storage) (group bname : String) (deleted : List String) (ok : Bool)
  deriving Repr

/-- Group choice at storage level: remove abandoned temporaries of the reused group, or create
today's group directory. -/
def stage1 (st : Storage) (groups : List Group) (maxPer : Nat) (today : String) : Except String (Storage × String) :=
  match chooseGroup groups maxPer today with
  | .reuse g => .ok (removeFromGroup st g.name (g.temps.map (fun t => "." ++ t)), g.name)
  | .exists_ _ => .error "exists"
  | .create name =>
    if st.any (·.name = name) then .error "mkdir-group"      -- EEXIST on something not listed as a group
    else .ok (st ++ [{ name := name, type := .dir, entries := some [] }], name)

/-- `gc_groups` after publication. -/
def stage3 (st2 : Storage) (gname bname : String) (maxGroups : Nat) (okSoFar : Bool) : RunRes :=
  match listRoot localTraits st2 with
  | .err => .failed st2 "list2"
  | .ok groups2 ok2 _ =>
    let del := gcPlan groups2 ok2 maxGroups
    .done (st2.filter (fun r => !del.contains r.name)) gname bname del (okSoFar && ok2)

/-- Temporary directory, walk, `finish`. -/
def stage2 (st1 : Storage) (gname bname : String) (maxGroups : Nat) (walkOk : Option Bool) (metaOk : Bool) : RunRes :=
  if hasEntry st1 gname ("." ++ bname) then .failed st1 "mkdir-temp" else   -- `.bname` exists
  match walkOk with
  | none => .failed st1 "walk"            -- Drop removes the temporary directory
  | some wok =>
    -- rename onto the final name fails if something other than an empty directory is there
    if renameBlocked st1 gname bname then .failed st1 "rename" else
    stage3 (addToGroup st1 gname (completeBackup bname)) gname bname maxGroups (metaOk && wok)

/-- One `vsb backup` run at storage level.  `walkOk` is the outcome of reading the items
(`none` = an `Err` aborted the run before `finish`); `metaOk` the outcome of loading the group's
earlier manifests. -/
def backupRun (st : Storage) (today bname : String) (maxPer maxGroups : Nat)
    (walkOk : Option Bool) (metaOk : Bool := true) : RunRes :=
  match listRoot localTraits st with
  | .err => .failed st "list"
  | .ok groups _ _ =>
    match stage1 st groups maxPer today with
    | .error why => .failed st why
    | .ok (st1, gname) => stage2 st1 gname bname maxGroups walkOk metaOk

end Vsb.Rotate
