import VsbModel.Model.Restore

/-
M8b — what a self-contained backup looks like (every non-empty file carries its data: the first backup of
a group, or any backup without deduplicated content), the tree it restores to, and an executable check of
the well-formedness conditions used by `restore_exact_selfcontained`.
-/
namespace Vsb.Restore
variable {H β : Type} [DecidableEq H]

def Entry.path : Entry β → String
  | .dir p _ => p
  | .file p _ _ => p
  | .symlink p _ _ => p
  | .other p => p

/-- The manifest path of the file restored at `fp`: `/` + components joined by `/`. -/
def keyOf (fp : FPath) : String := "/" ++ "/".intercalate fp

/-- Where an entry goes below the restore directory. -/
def fpOf (e : Entry β) : FPath := (tarPathToFile e.path).getD []

/-- The manifest line vsb writes for a file whose bytes are stored in this backup: `unique` unless empty. -/
def recOf (hashOf : List β → H) : Entry β → Option (MRec H)
  | .file p m d => some ⟨decide (d.length ≠ 0), hashOf d, d.length, keyOf (fpOf (.file p m d))⟩
  | _ => none

def manifestOf (hashOf : List β → H) (es : List (Entry β)) : List (MRec H) := es.filterMap (recOf hashOf)

/-- What an entry becomes in the restored tree. -/
def nodeOf : Entry β → FNode β
  | .dir _ m => .dir (some m)
  | .file _ m d => .file d (some m)
  | .symlink _ m t => .symlink t m
  | .other _ => .dir none

/-- The restored tree: one node per archive entry, in archive order. -/
def fsOf (es : List (Entry β)) : FS β := es.map (fun e => (fpOf e, nodeOf e))

def Entry.isDir : Entry β → Bool
  | .dir _ _ => true
  | _ => false

def Entry.isOther : Entry β → Bool
  | .other _ => true
  | _ => false


/-- Executable form of `WFArchive` (sound: `wfCheck_sound`). `dirs` / `all`: paths of the directory entries /
of all entries seen so far. -/
def wfGo (dirs all : List FPath) : List (Entry β) → Bool
  | [] => true
  | e :: rest =>
    let fp := fpOf e
    !e.isOther && (tarPathToFile e.path == some fp) && (manifestPathToFile (keyOf fp) == some fp) &&
    !all.contains fp && (fp.dropLast == [] || dirs.contains fp.dropLast) &&
    wfGo (if e.isDir then fp :: dirs else dirs) (fp :: all) rest

def wfCheck (es : List (Entry β)) : Bool := wfGo [] [] es

end Vsb.Restore
