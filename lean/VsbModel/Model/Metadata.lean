/-
M3 — model of `storage/metadata.rs`: `MetadataItem::{encode, decode}`, `Fingerprint::{encode, decode}`,
`validate_path`, and of `util/hash.rs::Hash` hex printing/parsing, at the level of characters.

Integers are printed in decimal as Rust's `Display` does (no sign for non-negative, `-` for negative,
no leading zeros) and parsed as `str::parse::<u64>` / `parse::<i128>` do (optional `+`, for `i128`
also `-`; at least one digit; ASCII digits only; range checked).
-/
namespace Vsb.Metadata

/-- Decimal digits of a natural number, most significant first (`0` ↦ "0"). -/
def natDigits (n : Nat) : List Char :=
  if n < 10 then [Char.ofNat (48 + n)] else natDigits (n / 10) ++ [Char.ofNat (48 + n % 10)]
termination_by n
decreasing_by omega

def digitVal (c : Char) : Option Nat :=
  if '0' ≤ c ∧ c ≤ '9' then some (c.toNat - 48) else none

/-- Parse a non-empty run of ASCII digits. -/
def readDigitsAux : List Char → Nat → Option Nat
  | [], acc => some acc
  | c :: cs, acc => match digitVal c with
    | some d => readDigitsAux cs (acc * 10 + d)
    | none => none

def readDigits (cs : List Char) : Option Nat :=
  if cs.isEmpty then none else readDigitsAux cs 0

def u64Max : Nat := 2 ^ 64 - 1
def i128Min : Int := -(2 ^ 127)
def i128Max : Int := 2 ^ 127 - 1

/-- `str::parse::<u64>` -/
def parseU64 (cs : List Char) : Option Nat :=
  let body := match cs with
    | '+' :: rest => rest
    | _ => cs
  match readDigits body with
  | some n => if n ≤ u64Max then some n else none
  | none => none

/-- `str::parse::<i128>` -/
def parseI128 (cs : List Char) : Option Int :=
  let (neg, body) := match cs with
    | '+' :: rest => (false, rest)
    | '-' :: rest => (true, rest)
    | _ => (false, cs)
  match readDigits body with
  | some n =>
    let v : Int := if neg then -(n : Int) else (n : Int)
    if i128Min ≤ v ∧ v ≤ i128Max then some v else none
  | none => none

def showInt (i : Int) : List Char :=
  match i with
  | .ofNat n => natDigits n
  | .negSucc n => '-' :: natDigits (n + 1)

/-! ### Hash as lowercase hex -/

def hexDigit (n : Nat) : Char := if n < 10 then Char.ofNat (48 + n) else Char.ofNat (87 + n)

def hexVal (c : Char) : Option Nat :=
  if '0' ≤ c ∧ c ≤ '9' then some (c.toNat - 48)
  else if 'a' ≤ c ∧ c ≤ 'f' then some (c.toNat - 87)
  else if 'A' ≤ c ∧ c ≤ 'F' then some (c.toNat - 55)
  else none

/-- `hex::encode` of bytes (each `< 256`). -/
def hexEncode : List Nat → List Char
  | [] => []
  | b :: bs => hexDigit (b / 16) :: hexDigit (b % 16) :: hexEncode bs

/-- `hex::decode` -/
def hexDecode : List Char → Option (List Nat)
  | [] => some []
  | [_] => none
  | a :: b :: rest =>
    match hexVal a, hexVal b, hexDecode rest with
    | some x, some y, some bs => some ((x * 16 + y) :: bs)
    | _, _, _ => none

/-! ### Records -/

structure Fingerprint where
  device : Nat
  inode : Nat
  mtimeNs : Int
  deriving Repr, DecidableEq

structure Item where
  unique : Bool
  hash : List Nat      -- bytes
  fp : Fingerprint
  size : Nat
  path : List Char
  deriving Repr, DecidableEq

/-- `validate_path`: UTF-8 (always true of a `List Char`) without CR / LF. -/
def validPath (p : List Char) : Bool := !(p.contains '\r' || p.contains '\n')

def Fingerprint.encode (f : Fingerprint) : List Char :=
  natDigits f.device ++ [':'] ++ natDigits f.inode ++ [':'] ++ showInt f.mtimeNs

/-- `str::split(sep)` on characters. -/
def splitOn (sep : Char) : List Char → List (List Char)
  | [] => [[]]
  | c :: cs =>
    if c = sep then [] :: splitOn sep cs
    else match splitOn sep cs with
      | [] => [[c]]      -- unreachable: the result is never empty
      | p :: ps => (c :: p) :: ps

def Fingerprint.decode (cs : List Char) : Option Fingerprint :=
  match splitOn ':' cs with
  | [a, b, c] =>
    match parseU64 a, parseU64 b, parseI128 c with
    | some d, some i, some m => some ⟨d, i, m⟩
    | _, _, _ => none
  | _ => none

/-- `MetadataItem::encode` (without the trailing newline added by `writeln!`). -/
def Item.encode (r : Item) : List Char :=
  (if r.unique then "unique".toList else "extern".toList) ++ [' '] ++ hexEncode r.hash ++ [' '] ++
    r.fp.encode ++ [' '] ++ natDigits r.size ++ [' '] ++ r.path

/-- Split at the first space: `(before, after)`; `none` if there is no space. -/
def splitSpace : List Char → Option (List Char × List Char)
  | [] => none
  | c :: cs => if c = ' ' then some ([], cs) else
    match splitSpace cs with
    | some (a, b) => some (c :: a, b)
    | none => none

/-- `MetadataItem::decode` = `line.splitn(5, ' ')` and the field parsers. -/
def Item.decode (line : List Char) : Option Item :=
  match splitSpace line with
  | none => none
  | some (status, r1) =>
    let uniq : Option Bool := if status = "extern".toList then some false
      else if status = "unique".toList then some true else none
    match uniq, splitSpace r1 with
    | some u, some (hash, r2) =>
      match hexDecode hash, splitSpace r2 with
      | some h, some (fp, r3) =>
        match Fingerprint.decode fp, splitSpace r3 with
        | some f, some (size, path) =>
          match parseU64 size with
          | some s => some ⟨u, h, f, s, path⟩
          | none => none
        | _, _ => none
      | _, _ => none
    | _, _ => none

end Vsb.Metadata
