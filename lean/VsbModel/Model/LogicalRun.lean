import VsbModel.Model.Logical
import VsbModel.Model.Dedup

/-
M8d — a backup run at the level of trees: the walk reads a tree `es` (with a fingerprint per file), the
deduplication model (M5) decides which files are stored, and the result is the logical backup that `render`
turns into archive + manifest.  Histories of such runs, rotations and deletions of whole groups.
-/
namespace Vsb.Restore
open Vsb.Dedup
variable {H β F : Type} [DecidableEq H] [DecidableEq F]

/-- A logical backup together with the fingerprints the run saw (needed by the next run's shortcut). -/
structure LBackupF (β F : Type) where
  lb : LBackup β
  fp : String → F

/-- What the walk hands to `add_file`, per regular file. -/
def eventsOf (hashOf : List β → H) (fpf : String → F) (es : List (Entry β)) : List (FileEv H F String) :=
  es.filterMap (fun e => match e with
    | .file p _ d => some ⟨keyE e, fpf p, d.length, hashOf d⟩
    | _ => none)

/-- The manifest of a logical backup as the deduplication model sees it (with fingerprints). -/
def recsD (hashOf : List β → H) (b : LBackupF β F) : List (Rec H F String) :=
  b.lb.es.filterMap (fun e => match e with
    | .file p _ d => some ⟨decide (d.length ≠ 0) && b.lb.stored p, hashOf d, b.fp p, d.length, keyE e⟩
    | _ => none)

def uniqueOf (rs : List (Rec H F String)) (k : String) : Bool := rs.any (fun r => r.unique && r.path == k)

/-- One run appending to group `g` (of which the manifests `mask` are readable); `pad`: what follows the content in the
archive entries of the files it stores (zeros, where a file shrank while it was archived - C15). -/
def runL (hashOf : List β → H) (g : List (LBackupF β F)) (mask : List Bool) (name : String)
    (es : List (Entry β)) (fpf : String → F) (pad : String → List β) : LBackupF β F :=
  let recs := records (runBackup (hashOf []) (view (g.map (recsD hashOf)) mask) (eventsOf hashOf fpf es))
  ⟨⟨name, es, fun p => uniqueOf recs (keyOf ((tarPathToFile p).getD [])), pad⟩, fpf⟩

abbrev LStore (β F : Type) := List (List (LBackupF β F))

inductive LOp (β F : Type) where
  | run (name : String) (es : List (Entry β)) (fpf : String → F) (mask : List Bool) (newGroup : Bool) (pad : String → List β)
  | deleteGroups (keep : List Bool)

def stepL (hashOf : List β → H) (st : LStore β F) : LOp β F → LStore β F
  | .run name es fpf mask newGroup pad =>
    match st.getLast?, newGroup with
    | some g, false => st.dropLast ++ [g ++ [runL hashOf g mask name es fpf pad]]
    | _, _ => st ++ [[runL hashOf [] [] name es fpf pad]]
  | .deleteGroups keep => keepMasked st keep

end Vsb.Restore
