/-
M9 — the storage-side operation alphabet of a `vsb backup` run, the operation list a run produces
(`runOps`), and three decidable monitors over operation lists:

* `accept`   (C03) — unfinished work only under the dot-prefixed temporary name, one rename, nothing
                      written to the backup after it, old groups removed only after publication;
* `orderOk`  (C12) — everything is flushed before the rename, the rename before success / deletions;
* `lockOk`   (C16) — the lock brackets every storage access.

Paths are relative to the backup root: `[group]`, `[group, entry]`, `[group, entry, file]`.
-/
namespace Vsb.FsTrace

abbrev Path := List String

inductive Op where
  | lock (ok : Bool)                 -- `flock(root, LOCK_EX | LOCK_NB)` and whether it succeeded
  | readdir (p : Path)               -- listing (root, group or backup directory)
  | openRead (p : Path)              -- reading an earlier manifest
  | mkdir (p : Path)
  | create (p : Path)                -- `O_CREAT | O_EXCL`
  | write (p : Path)
  | fsyncFile (p : Path)
  | fsyncDir (p : Path)
  | rename (src dst : Path)
  | remove (p : Path)                -- unlink / rmdir of `p` (recursive removals list every path)
  | exit (status : Nat)
  deriving Repr, DecidableEq

def Op.mutates : Op → Bool
  | .mkdir _ | .create _ | .write _ | .rename _ _ | .remove _ => true
  | _ => false

/-- Paths an operation changes. -/
def Op.targets : Op → List Path
  | .mkdir p | .create p | .write p | .remove p => [p]
  | .rename s d => [s, d]
  | _ => []

def isDot (name : String) : Bool := name.toList.head? = some '.'

/-- `p` is `q` or lies below it. -/
def under (p q : Path) : Bool := q.isPrefixOf p

/-! ### What a run does -/

structure Scenario where
  group : String                         -- group the backup goes to
  newGroup : Bool                        -- the group directory is created by this run
  abandoned : List (String × List String) := []   -- abandoned temporaries of a reused group: name, files inside
  name : String                          -- backup name (without the dot)
  writes1 : List Bool := [true, false]   -- write(2) calls before the manifest is flushed (true = data.tar.zst)
  writes2 : Nat := 1                     -- write(2) calls on data.tar.zst after that (archive trailer)
  earlier : List String := []            -- earlier backups whose manifest is read
  listing1 : List Path := []             -- directories listed for the group choice
  listing2 : List Path := []             -- directories listed by gc_groups after publication
  oldGroups : List (String × List Path) := []   -- groups removed afterwards, with every path below them (post-order)
  deriving Repr

def tmpName (sc : Scenario) : String := "." ++ sc.name
def tmpDir (sc : Scenario) : Path := [sc.group, tmpName sc]
def finalDir (sc : Scenario) : Path := [sc.group, sc.name]
def metaFile (sc : Scenario) : Path := tmpDir sc ++ ["metadata.zst"]
def dataFile (sc : Scenario) : Path := tmpDir sc ++ ["data.tar.zst"]

/-- The operations of a successful run, in order (reads abstracted to one listing phase each). -/
def body (sc : Scenario) : List Op :=
  sc.listing1.map .readdir ++
  (if sc.newGroup then [.mkdir [sc.group]] else
    sc.abandoned.flatMap (fun a => (a.2.map (fun f => Op.remove [sc.group, "." ++ a.1, f])) ++ [Op.remove [sc.group, "." ++ a.1]])) ++
  [.mkdir (tmpDir sc), .create (metaFile sc), .create (dataFile sc)] ++
  sc.earlier.map (fun b => .openRead [sc.group, b, "metadata.zst"]) ++
  sc.writes1.map (fun d => .write (if d then dataFile sc else metaFile sc)) ++
  [.fsyncFile (metaFile sc)] ++
  List.replicate sc.writes2 (.write (dataFile sc)) ++      -- rest of the archive, written by `finish`
  [.fsyncFile (dataFile sc), .fsyncDir (tmpDir sc), .rename (tmpDir sc) (finalDir sc), .fsyncDir [sc.group]] ++
  sc.listing2.map .readdir ++
  sc.oldGroups.flatMap (fun g => g.2.map .remove ++ [.remove [g.1]])

def runOps (sc : Scenario) : List Op := [.lock true] ++ body sc ++ [.exit 0]

/-! ### C03: `accept` -/

structure AccSt where
  published : Option (Path × Path) := none     -- (temp, final) once renamed
  tmp : Option Path := none                     -- the run's temporary directory
  ok : Bool := true
  deriving Repr

/-- Is `p` inside an (abandoned or own) temporary backup directory of some group: `[g, .x, …]`? -/
def inTemp (p : Path) : Bool :=
  match p with
  | _ :: e :: _ => isDot e
  | _ => false

def renameShape (s d : Path) : Bool :=
  match s, d with
  | [g, e], [g', e'] => g = g' && !isDot e' && e = "." ++ e'
  | _, _ => false

def accStep (st : AccSt) (op : Op) : AccSt :=
  match op with
  | .mkdir p =>
    match p with
    | [_] => if st.published.isSome then { st with ok := false } else st        -- a new group directory
    | [_, e] => if isDot e && st.published.isNone then { st with tmp := some p } else { st with ok := false }
    | _ => { st with ok := false }
  | .create p | .write p =>
    -- only inside the run's own temporary directory, and never after publication
    match st.tmp with
    | some t => if under p t && p ≠ t && st.published.isNone then st else { st with ok := false }
    | none => { st with ok := false }
  | .rename s d =>
    -- the run's own temporary directory `[g, .n]` becomes `[g, n]`, once
    if st.tmp = some s ∧ st.published.isNone = true ∧ renameShape s d = true then { st with published := some (s, d) }
    else { st with ok := false }
  | .remove p =>
    -- before publication: only abandoned temporaries; after it: whole old groups (any path)
    if st.published.isSome then
      (match st.published with
        | some (_, d) => if under p [d.headD ""] then { st with ok := false } else st    -- never the published backup's group
        | none => st)
    else if inTemp p then st else { st with ok := false }
  | _ => st

def accept (t : List Op) : Bool := (t.foldl accStep {}).ok

/-! ### C12: `orderOk` -/

structure OrdSt where
  created : List Path := []          -- files created in the temporary directory
  dirty : List Path := []            -- written since their last fsync
  unsyncedEntries : List Path := []  -- created since the last fsync of the temporary directory
  tmp : Option Path := none
  renamed : Bool := false
  renameDurable : Bool := false
  ok : Bool := true
  deriving Repr

def ordStep (st : OrdSt) (op : Op) : OrdSt :=
  match op with
  | .mkdir p => if p.length = 2 then { st with tmp := some p } else st
  | .create p =>
    -- nothing may be added to the backup once it carries its final name
    { st with created := st.created ++ [p], unsyncedEntries := st.unsyncedEntries ++ [p], dirty := st.dirty ++ [p],
              ok := st.ok && !st.renamed }
  | .write p =>
    { st with dirty := if st.dirty.contains p then st.dirty else st.dirty ++ [p], ok := st.ok && !st.renamed }
  | .fsyncFile p => { st with dirty := st.dirty.filter (· ≠ p) }
  | .fsyncDir p =>
    if some p = st.tmp then { st with unsyncedEntries := [] }
    else if st.renamed = true ∧ st.tmp.map List.dropLast = some p then { st with renameDurable := true }
    else st
  | .rename _ _ =>
    -- everything the backup consists of must be durable before it gets its final name
    { st with renamed := true,
              ok := st.ok && st.dirty.isEmpty && st.unsyncedEntries.isEmpty && st.created.length ≥ 2 }
  | .remove p =>
    -- removing anything older (i.e. anything once the backup is renamed) needs the rename to be durable;
    -- before the rename only abandoned temporaries (dot-prefixed entries of a group) may go
    if st.renamed then { st with ok := st.ok && st.renameDurable }
    else if inTemp p then st else { st with ok := false }
  | .exit status => if status = 0 then { st with ok := st.ok && st.renamed && st.renameDurable } else st
  | _ => st

def orderOk (t : List Op) : Bool := (t.foldl ordStep {}).ok

/-! ### C16: `lockOk` -/

def Op.isStorage : Op → Bool
  | .lock _ => false
  | .exit _ => false
  | _ => true

def Op.isExit : Op → Bool
  | .exit _ => true
  | _ => false

/-- The first operation is the lock attempt; if it fails nothing touches the storage; if it succeeds
the process exit (which releases the lock) is the last operation: every storage operation, including
the removal of old groups, happens while the lock is held. -/
def lockOk (t : List Op) : Bool :=
  match t with
  | .lock false :: rest => rest.all (fun o => !o.isStorage)
  | .lock true :: rest => rest.dropLast.all (fun o => !o.isExit)
  | [] => true
  | _ => false

end Vsb.FsTrace
