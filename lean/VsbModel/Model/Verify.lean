import VsbModel.Model.Listing
import VsbModel.Model.Dedup
/-
M7 (verification part) — model of `BackupGroup::inspect`, `Backup::inspect`,
`Storage::get_backup_groups(verify = true)`, `uploading/check.rs::check_backups` and
`uploading/config.rs::parse_duration`.
-/
namespace Vsb.Verify
open Vsb.Dedup

/-- What `read_metadata` yields for one backup: the records decoded before the first failure and
whether the whole manifest decoded (`complete = false`: open error, zstd error or a bad line). -/
structure Manifest (H F P : Type) where
  recs : List (Rec H F P)
  complete : Bool := true
  deriving Repr

variable {H F P : Type} [DecidableEq H]

/-- `Backup::inspect`: new `available_hashes`, and `some recoverable` or `none` for `Err`. -/
def inspectBackup (avail : List H) (m : Manifest H F P) : List H × Option Bool :=
  let step := fun (acc : List H × Bool × Nat) (r : Rec H F P) =>
    let (avail, recoverable, n) := acc
    if r.unique then (r.hash :: avail, recoverable, n + 1)
    else (avail, recoverable && !(r.size ≠ 0 && !avail.contains r.hash), n + 1)
  let (avail', recoverable, n) := m.recs.foldl step (avail, true, 0)
  if m.complete then (avail', some (n != 0 && recoverable)) else (avail', none)

/-- `BackupGroup::inspect` -/
def inspectGroup (backups : List (Manifest H F P)) : Bool :=
  (backups.foldl (fun (acc : List H × Bool) m =>
    let (avail, res) := inspectBackup acc.1 m
    (avail, acc.2 && (res == some true))) ([], true)).2

/-- `get_backup_groups(true)`: listing verdict and every group's inspection (no short-circuit: all
groups are inspected, `ok` is the conjunction). -/
def verifyOk (listOk : Bool) (groups : List (List (Manifest H F P))) : Bool :=
  listOk && groups.all inspectGroup

/-! ### Age alarm (`check_backups`) -/

inductive AgeVerdict where
  | noBackups        -- error: "... have no backups"
  | noThreshold      -- `max_time_without_backups` not configured: nothing to check
  | badName          -- error: "Failed to determine a time when backup has been created"
  | future           -- error: backup time in the future
  | fresh            -- no alarm
  | stale (seconds : Nat)  -- error: "doesn't have any backup for last ..."
  deriving Repr, DecidableEq

/-- `groups`: per listed group the creation times (seconds) of its backups, `none` for a name that
does not parse as a time. -/
def ageStep (acc : Option (Option Nat)) (g : List (Option Nat)) : Option (Option Nat) :=
  match g.getLast? with
  | some b => some b      -- `last_backup = Some(backup)`
  | none => acc           -- empty group: logged, `last_backup` unchanged

def checkBackups (groups : List (List (Option Nat))) (now : Nat) (maxAge : Option Nat) : AgeVerdict :=
  match groups.foldl ageStep none with
  | none => .noBackups
  | some b =>
    match maxAge with
    | none => .noThreshold
    | some maxAge =>
      match b with
      | none => .badName
      | some t =>
        if now < t then .future
        else if now - t < maxAge then .fresh else .stale (now - t)

def AgeVerdict.isAlarm : AgeVerdict → Bool
  | .noBackups => true
  | .stale _ => true
  | _ => false

/-- `parse_duration`: `^[1-9]\d*[mhd]$` → seconds. -/
def parseDuration (s : String) : Option Nat :=
  let cs := s.toList
  match cs.reverse with
  | unit :: revDigits =>
    let digits := revDigits.reverse
    let mult : Option Nat := if unit = 'm' then some 60 else if unit = 'h' then some 3600
      else if unit = 'd' then some 86400 else none
    match mult, digits with
    | some k, d :: _ =>
      if d ≠ '0' && digits.all (fun c => '0' ≤ c && c ≤ '9') then
        some (digits.foldl (fun acc c => acc * 10 + (c.toNat - 48)) 0 * k)
      else none
    | _, _ => none
  | [] => none

end Vsb.Verify
