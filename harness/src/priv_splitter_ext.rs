// Extension placed inside a private copy of util/stream_splitter.rs: direct access to `splitter`.
pub fn ext_splitter(data_stream: DataReceiver, chunk_streams: ChunkStreamSender,
                    stream_max_size: Option<u64>) -> Result<(), String> {
    splitter(data_stream, chunk_streams, stream_max_size).map_err(|e| e.to_string())
}
