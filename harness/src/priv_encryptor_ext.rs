// Extension placed inside a private copy of storage/encryptor.rs: drives the real Encryptor with whatever `gpg`
// is first in PATH and reports the terminal message it puts on the data channel.
pub fn ext_run(passphrase: &str, size: usize, caller: &str) -> serde_json::Value {
    use std::io::Write as _;
    let hasher: Box<dyn crate::util::hash::Hasher> = Box::new(crate::util::hash::Md5::new());
    let (mut encryptor, rx) = match Encryptor::new(passphrase, hasher) {
        Ok(v) => v,
        Err(e) => return serde_json::json!({"new_error": e.to_string()}),
    };
    let drain = std::thread::spawn(move || {
        let (mut bytes, mut terminal, mut after) = (0usize, "none".to_owned(), 0usize);
        for message in rx.iter() {
            if terminal != "none" { after += 1; }
            match message {
                Ok(Data::Payload(data)) => bytes += data.len(),
                Ok(Data::EofWithChecksum(_)) => terminal = "eof".to_owned(),
                Err(_) => terminal = "err".to_owned(),
            }
        }
        (bytes, terminal, after)
    });
    let block = vec![0x5au8; 4096];
    let mut written = 0usize;
    let mut write_error = None;
    while written < size {
        let n = std::cmp::min(block.len(), size - written);
        if let Err(e) = encryptor.write_all(&block[..n]) { write_error = Some(e.to_string()); break; }
        written += n;
    }
    let finish = match caller {
        "ok" => Some(encryptor.finish(None)),
        "err" => Some(encryptor.finish(Some("caller error".to_owned()))),
        _ => { drop(encryptor); None },
    };
    let (bytes, terminal, after) = drain.join().unwrap();
    serde_json::json!({
        "terminal": terminal, "payload_bytes": bytes, "messages_after_terminal": after, "write_error": write_error,
        "finish": finish.map(|r| if r.is_ok() { "ok".to_owned() } else { "err".to_owned() }),
    })
}
