use std::io::{self, BufRead, Write};
use std::panic;

use serde_json::{json, Value};

mod split;
mod chash;
mod sync;
mod mdline;
mod verify;
mod filter;
mod cfg;
mod filereader;
mod upfile;
mod upbackup;
mod listdir;

fn dispatch(op: &str, arg: &Value) -> Result<Value, String> {
    match op {
        "split" => split::op_split(arg),
        "streamread" => split::op_streamread(arg),
        "chash" => chash::op_chash(arg),
        "sync" => sync::op_sync(arg),
        "filter" => filter::op_filter(arg),
        "filereader" => filereader::op_filereader(arg),
        "upfile" => upfile::op_upfile(arg),
        "upbackup" => upbackup::op_upbackup(arg),
        "listdir" => listdir::op_listdir(arg),
        "encrun" => {
            if let Some(p) = arg.get("path").and_then(|x| x.as_str()) { std::env::set_var("PATH", p); }
            Ok(crate::priv_encryptor::ext_run(arg.get("passphrase").and_then(|x| x.as_str()).unwrap_or("pp"),
                arg.get("size").and_then(|x| x.as_u64()).unwrap_or(0) as usize,
                arg.get("caller").and_then(|x| x.as_str()).unwrap_or("ok")))
        },
        "cfgload" => cfg::op_cfgload(arg),
        "cfgpath" => cfg::op_cfgpath(arg),
        "verify" => verify::op_verify(arg),
        "age" => verify::op_age(arg),
        "duration" => verify::op_duration(arg),
        "listgroups" => verify::op_listgroups(arg),
        "mdline" => mdline::op_mdline(arg),
        "mdparse" => mdline::op_mdparse(arg),
        _ => Err(format!("unknown op {}", op)),
    }
}

// ---- capturing logger: "reported at error level" must be observable ----
struct CaptureLogger;
static LOGGER: CaptureLogger = CaptureLogger;
static LOGS: std::sync::Mutex<Vec<(log::Level, String)>> = std::sync::Mutex::new(Vec::new());

impl log::Log for CaptureLogger {
    fn enabled(&self, _m: &log::Metadata) -> bool { true }
    fn log(&self, record: &log::Record) {
        if record.target().starts_with("vsb") {
            LOGS.lock().unwrap().push((record.level(), record.args().to_string()));
        }
    }
    fn flush(&self) {}
}

pub fn take_logs() -> Vec<(log::Level, String)> {
    std::mem::take(&mut *LOGS.lock().unwrap())
}

pub fn logs_json(logs: &[(log::Level, String)]) -> Value {
    Value::Array(logs.iter().filter(|(l, _)| *l <= log::Level::Warn)
        .map(|(l, m)| json!([if *l == log::Level::Error { "E" } else { "W" }, m])).collect())
}

pub fn main_loop() {
    let _ = log::set_logger(&LOGGER);
    log::set_max_level(log::LevelFilter::Info);
    // Panics are reported as results, not as process death.
    panic::set_hook(Box::new(|_| {}));
    let stdin = io::stdin();
    let stdout = io::stdout();
    let mut out = io::BufWriter::new(stdout.lock());
    for line in stdin.lock().lines() {
        let line = match line { Ok(l) => l, Err(_) => break };
        let line = line.trim();
        if line.is_empty() { continue; }
        let (op, rest) = match line.find(' ') {
            Some(i) => (&line[..i], &line[i + 1..]),
            None => (line, "null"),
        };
        let result = match serde_json::from_str::<Value>(rest) {
            Err(e) => json!({"harness_error": format!("json: {}", e)}),
            Ok(arg) => {
                let op = op.to_owned();
                match panic::catch_unwind(panic::AssertUnwindSafe(|| dispatch(&op, &arg))) {
                    Ok(Ok(v)) => v,
                    Ok(Err(e)) => json!({"harness_error": e}),
                    Err(p) => {
                        let msg = p.downcast_ref::<String>().cloned()
                            .or_else(|| p.downcast_ref::<&str>().map(|s| s.to_string()))
                            .unwrap_or_default();
                        json!({"panic": msg})
                    }
                }
            }
        };
        writeln!(out, "{}", result).unwrap();
        out.flush().unwrap();
    }
}

pub fn bytes_of(v: &Value) -> Result<Vec<u8>, String> {
    v.as_array().ok_or("expected array")?.iter()
        .map(|x| x.as_u64().map(|n| n as u8).ok_or_else(|| "expected byte".to_string()))
        .collect()
}

pub fn opt_u64(v: &Value, key: &str) -> Option<u64> {
    v.get(key).and_then(|x| x.as_u64())
}
