// Extension placed inside a private copy of http_client/body.rs: builds the private StreamReader.
pub fn ext_stream_reader(stream: ChunkStream) -> impl std::io::Read {
    StreamReader { stream, current_chunk: None }
}
