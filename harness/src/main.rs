// GENERATED from main.rs.in by bin/build-harness (/repo = repository root). Do not edit main.rs.
#![allow(dead_code, unused_imports, unused_variables, unused_macros, clippy::all)]

#[macro_use] #[path = "/repo/src/core.rs"] mod core;
#[path = "/repo/src/backuping/mod.rs"] mod backuping;
#[path = "/repo/src/cli/mod.rs"] mod cli;
#[path = "/repo/src/config.rs"] mod config;
#[path = "/repo/src/http_client/mod.rs"] mod http_client;
#[path = "/repo/src/providers/mod.rs"] mod providers;
#[path = "/repo/src/restoring/mod.rs"] mod restoring;
#[path = "/repo/src/storage/mod.rs"] mod storage;
#[path = "/repo/src/uploading/mod.rs"] mod uploading;
#[path = "/repo/src/util/mod.rs"] mod util;

// Leaf files included a second time so that their private items are reachable from the
// extension code that is textually placed in the same module.
mod priv_body { include!("/repo/src/http_client/body.rs"); include!("priv_body_ext.rs"); }
mod priv_splitter { include!("/repo/src/util/stream_splitter.rs"); include!("priv_splitter_ext.rs"); }

mod priv_metadata { include!("/repo/src/storage/metadata.rs"); include!("priv_metadata_ext.rs"); }
mod priv_check { include!("/repo/src/uploading/check.rs"); }
mod priv_upconfig { include!("/repo/src/uploading/config.rs"); pub fn ext_parse_duration(s: &str) -> Option<u64> { parse_duration(s).ok().map(|d| d.as_secs()) } }
mod priv_config { include!("/repo/src/config.rs"); pub fn ext_validate_path(p: &str) -> Option<String> { validate_path(p).ok() } pub fn ext_validate_local_path(p: &str) -> Option<String> { validate_local_path(p).ok() } }
mod priv_sync { include!("/repo/src/uploading/sync.rs"); }
mod priv_encryptor { include!("/repo/src/storage/encryptor.rs"); include!("priv_encryptor_ext.rs"); }

mod ops;

fn main() {
    ops::main_loop();
}
