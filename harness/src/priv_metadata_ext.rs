// Extension inside a private copy of storage/metadata.rs: build items with arbitrary fingerprints and
// push them through the real MetadataWriter -> zstd -> MetadataReader pipeline.
pub fn ext_item(path: &str, size: u64, hash_hex: &str, unique: bool, device: u64, inode: u64, mtime_nsec: i128)
    -> GenericResult<MetadataItem>
{
    Ok(MetadataItem {
        path: path.to_owned(), size, hash: hash_hex.try_into()?, unique,
        fingerprint: Fingerprint { device, inode, mtime_nsec },
    })
}

pub fn ext_line(item: &MetadataItem) -> GenericResult<String> {
    let mut buf = Vec::new();
    item.encode(&mut buf)?;
    Ok(String::from_utf8(buf)?)
}

pub fn ext_roundtrip(item: &MetadataItem) -> GenericResult<Vec<GenericResult<MetadataItem>>> {
    let mut writer = MetadataWriter::new(Vec::new());
    writer.write(item)?;
    let data = writer.finish()?;
    Ok(MetadataReader::new(std::io::Cursor::new(data)).collect())
}

pub fn ext_decode(line: &str) -> GenericResult<MetadataItem> {
    MetadataItem::decode(line)
}

pub fn ext_fields(item: &MetadataItem) -> (String, u64, String, bool, u64, u64, i128) {
    (item.path.clone(), item.size, item.hash.to_string(), item.unique,
     item.fingerprint.device, item.fingerprint.inode, item.fingerprint.mtime_nsec)
}

pub fn ext_validate_path(path: &std::path::Path) -> bool { validate_path(path).is_ok() }
