//! C20: the real Config::load and path validation.
use std::io::Write;
use serde_json::{json, Value};
use crate::config::Config;

/// arg: {yaml, file} -> accepted (+ normalised paths) | rejected
pub fn op_cfgload(arg: &Value) -> Result<Value, String> {
    let yaml = arg.get("yaml").and_then(|x| x.as_str()).ok_or("yaml")?;
    let file = arg.get("file").and_then(|x| x.as_str()).ok_or("file")?;
    {
        let mut f = std::fs::File::create(file).map_err(|e| e.to_string())?;
        f.write_all(yaml.as_bytes()).map_err(|e| e.to_string())?;
    }
    match Config::load(std::path::Path::new(file)) {
        Ok(c) => {
            let backups: Vec<Value> = c.backups.iter().map(|b| json!({
                "name": b.name, "path": b.path,
                "upload_path": b.upload.as_ref().map(|u| u.path.clone()),
            })).collect();
            Ok(json!({"result": "accepted", "backups": backups, "metrics": c.prometheus_metrics}))
        },
        Err(e) => Ok(json!({"result": "rejected", "message": e.to_string()})),
    }
}

pub fn op_cfgpath(arg: &Value) -> Result<Value, String> {
    let p = arg.get("path").and_then(|x| x.as_str()).ok_or("path")?;
    let local = arg.get("local").and_then(|x| x.as_bool()).unwrap_or(true);
    let r = if local { crate::priv_config::ext_validate_local_path(p) } else { crate::priv_config::ext_validate_path(p) };
    Ok(match r { Some(s) => json!(s), None => Value::Null })
}
