//! C15: the real FileReader over a scripted underlying reader.
use std::io::{self, Read};
use serde_json::{json, Value};
use crate::util::file_reader::FileReader;
use super::bytes_of;

struct Scripted { chunks: Vec<Vec<u8>> }

impl Read for Scripted {
    fn read(&mut self, buf: &mut [u8]) -> io::Result<usize> {
        if self.chunks.is_empty() { return Ok(0); }
        if self.chunks[0].is_empty() { self.chunks.remove(0); return Ok(0); }
        let n = std::cmp::min(buf.len(), self.chunks[0].len());
        buf[..n].copy_from_slice(&self.chunks[0][..n]);
        if n == self.chunks[0].len() { self.chunks.remove(0); } else { self.chunks[0].drain(..n); }
        Ok(n)
    }
}

/// arg: {src: [[bytes]..], size, bufs: [n..]}
pub fn op_filereader(arg: &Value) -> Result<Value, String> {
    let mut chunks = Vec::new();
    for c in arg.get("src").and_then(|x| x.as_array()).ok_or("src")? { chunks.push(bytes_of(c)?); }
    let size = arg.get("size").and_then(|x| x.as_u64()).ok_or("size")?;
    let mut underlying = Scripted { chunks };
    let mut reader = FileReader::new(&mut underlying, size);
    let mut out = Vec::new();
    for b in arg.get("bufs").and_then(|x| x.as_array()).ok_or("bufs")? {
        let mut buf = vec![0xAAu8; b.as_u64().ok_or("buf")? as usize];
        let n = reader.read(&mut buf).map_err(|e| e.to_string())?;
        if n == 0 { break; }
        out.extend_from_slice(&buf[..n]);
    }
    let (bytes_read, hash) = reader.consume();
    Ok(json!({"out": out, "bytes_read": bytes_read, "hash": hash.to_string()}))
}
