//! C06: the real `uploading::sync::sync_backups` on synthetic group lists with a mock cloud
//! provider that records every provider action and fails the scripted ones.
use std::sync::{Arc, Mutex};

use serde_json::{json, Value};

use crate::core::{EmptyResult, GenericResult};
use crate::providers::{File, Provider, ProviderType, ReadProvider, UploadProvider, WriteProvider};
use crate::providers::filesystem::Filesystem;
use crate::storage::{Backup, BackupGroup, Storage};
use crate::util::hash::{Hasher, Md5};
use crate::util::stream_splitter::{ChunkStream, ChunkStreamReceiver};

pub fn group_name(g: u64) -> String { format!("{:04}.{:02}.{:02}", 2000 + g / 100, 1 + (g / 10) % 10, 1 + g % 10) }
pub fn backup_name(g: u64, b: u64) -> String { format!("{}-00:{:02}:{:02}", group_name(g), b / 60, b % 60) }

struct MockCloud {
    log: Arc<Mutex<Vec<String>>>,
    fails: Vec<String>,
    root: String,
    max_request_size: Option<u64>,
}

impl MockCloud {
    fn act(&self, name: String) -> EmptyResult {
        let failed = self.fails.contains(&name);
        self.log.lock().unwrap().push(name.clone());
        if failed { Err!("scripted failure of {}", name) } else { Ok(()) }
    }
    fn parse(&self, path: &str) -> Vec<String> {
        path.strip_prefix(&self.root).unwrap_or(path).trim_matches('/').split('/')
            .filter(|s| !s.is_empty()).map(|s| s.to_owned()).collect()
    }
}

impl Provider for MockCloud {
    fn name(&self) -> &'static str { "Mock cloud" }
    fn type_(&self) -> ProviderType { ProviderType::Cloud }
}

impl ReadProvider for MockCloud {
    fn list_directory(&self, _path: &str) -> GenericResult<Option<Vec<File>>> {
        self.log.lock().unwrap().push("LIST".to_owned());
        Ok(Some(Vec::new()))
    }
}

impl WriteProvider for MockCloud {
    fn create_directory(&self, path: &str) -> EmptyResult {
        let parts = self.parse(path);
        self.act(format!("c:{}", parts.join("/")))
    }
    fn delete(&self, path: &str) -> EmptyResult {
        let parts = self.parse(path);
        self.act(format!("d:{}", parts.join("/")))
    }
}

impl UploadProvider for MockCloud {
    fn hasher(&self) -> Box<dyn Hasher> { Box::new(Md5::new()) }
    fn max_request_size(&self) -> Option<u64> { self.max_request_size }
    fn upload_file(&self, directory_path: &str, temp_name: &str, name: &str,
                   chunk_streams: ChunkStreamReceiver) -> EmptyResult {
        let dir = self.parse(directory_path).join("/");
        let tag = format!("u:{}/{}", dir, name);
        if !temp_name.starts_with('.') || &temp_name[1..] != name {
            self.log.lock().unwrap().push(format!("BAD-TEMP:{}:{}", temp_name, name));
        }
        // drain the stream like a well-behaved provider
        let mut finished = false;
        for item in chunk_streams.iter() {
            match item {
                Ok(ChunkStream::Stream(_off, chunks)) => { for c in chunks.iter() { if c.is_err() { break; } } },
                Ok(ChunkStream::EofWithCheckSum(_, _)) => { finished = true; break; },
                Err(e) => { self.log.lock().unwrap().push(tag.clone()); return Err(e.into()); }
            }
        }
        if !finished {
            self.log.lock().unwrap().push(tag.clone());
            return Err!("stream ended without finalisation");
        }
        self.act(tag)
    }
}

fn groups_of(v: &Value, root: &str) -> Result<Vec<BackupGroup>, String> {
    let mut out = Vec::new();
    for g in v.as_array().ok_or("groups")? {
        let gn = g[0].as_u64().ok_or("group name")?;
        let mut group = BackupGroup::new(&group_name(gn));
        for b in g[1].as_array().ok_or("backups")? {
            let bn = backup_name(gn, b.as_u64().ok_or("backup")?);
            group.backups.push(Backup::new(&format!("{}/{}/{}", root, group.name, bn), &bn));
        }
        out.push(group);
    }
    Ok(out)
}

/// arg: {local_root, local:[[g,[b..]]..], cloud:[..], ok, max, fails:["c:<g>","u:<g>:<b>","d:<g>"]}
/// The local backups must exist as directories below local_root (the archiver reads them).
pub fn op_sync(arg: &Value) -> Result<Value, String> {
    let local_root = arg.get("local_root").and_then(|x| x.as_str()).ok_or("local_root")?;
    let local = groups_of(arg.get("local").ok_or("local")?, local_root)?;
    let cloud = groups_of(arg.get("cloud").ok_or("cloud")?, "/cloud")?;
    let ok = arg.get("ok").and_then(|x| x.as_bool()).ok_or("ok")?;
    let max = arg.get("max").and_then(|x| x.as_u64()).ok_or("max")? as usize;
    // translate the script's numeric names into path form
    let mut fails = Vec::new();
    for f in arg.get("fails").and_then(|x| x.as_array()).ok_or("fails")? {
        let f = f.as_str().ok_or("fail")?;
        let parts: Vec<&str> = f.split(':').collect();
        let g: u64 = parts[1].parse().map_err(|_| "g")?;
        fails.push(match parts[0] {
            "c" => format!("c:{}", group_name(g)),
            "d" => format!("d:{}", group_name(g)),
            _ => { let b: u64 = parts[2].parse().map_err(|_| "b")?; format!("u:{}/{}.tar.gpg", group_name(g), backup_name(g, b)) },
        });
    }
    let log = Arc::new(Mutex::new(Vec::new()));
    let local_storage = Storage::new_read_only(Filesystem::new(), local_root);
    let cloud_storage = Storage::new_upload(MockCloud {
        log: log.clone(), fails, root: "/cloud".to_owned(), max_request_size: None,
    }, "/cloud");
    let result = crate::priv_sync::sync_backups(&local_storage, &local, &cloud_storage, &cloud, ok, max, "pass phrase");
    let log = log.lock().unwrap().clone();
    Ok(json!({"log": log, "ok": result}))
}
