//! C04: the real `Storage::upload_backup` (archiver thread, gpg child, stdout reader, splitter) with a mock
//! `UploadProvider` that has a configurable request-size limit and reads every request body through the real
//! `Body -> reqwest::blocking::Body` conversion (i.e. through the private `StreamReader`).
use std::io::Write;
use std::sync::{Arc, Mutex};

use serde_json::{json, Value};
use sha2::{Digest, Sha256};

use crate::core::{EmptyResult, GenericResult};
use crate::http_client::Body;
use crate::providers::{File, Provider, ProviderType, ReadProvider, UploadProvider, WriteProvider};
use crate::storage::Storage;
use crate::util::hash::{ChunkedSha256, Hasher, Md5};
use crate::util::stream_splitter::{ChunkStream, ChunkStreamReceiver};

use super::{take_logs, logs_json};

#[derive(Default)]
struct Collected {
    bodies: Vec<(u64, Vec<u8>)>,
    fin: Option<(u64, String)>,
    error: Option<String>,
}

struct MockUp {
    max: Option<u64>,
    chunked: bool,
    /// the provider starts reading the first request body only after this pause (back-pressure on the producer)
    stall_ms: u64,
    state: Arc<Mutex<Collected>>,
}

impl Provider for MockUp {
    fn name(&self) -> &'static str { "Mock upload" }
    fn type_(&self) -> ProviderType { ProviderType::Cloud }
}

impl ReadProvider for MockUp {
    fn list_directory(&self, _path: &str) -> GenericResult<Option<Vec<File>>> { Ok(Some(Vec::new())) }
}

impl WriteProvider for MockUp {
    fn create_directory(&self, _path: &str) -> EmptyResult { Ok(()) }
    fn delete(&self, _path: &str) -> EmptyResult { Ok(()) }
}

impl UploadProvider for MockUp {
    fn hasher(&self) -> Box<dyn Hasher> {
        if self.chunked { Box::new(ChunkedSha256::new(4 * 1024 * 1024)) } else { Box::new(Md5::new()) }
    }
    fn max_request_size(&self) -> Option<u64> { self.max }
    fn upload_file(&self, _dir: &str, _temp: &str, _name: &str, chunk_streams: ChunkStreamReceiver) -> EmptyResult {
        for result in chunk_streams.iter() {
            match result {
                Ok(ChunkStream::Stream(offset, rx)) => {
                    if offset == 0 && self.stall_ms > 0 {
                        std::thread::sleep(std::time::Duration::from_millis(self.stall_ms));
                    }
                    let body: Body = rx.into();
                    let mut body: reqwest::blocking::Body = body.into();
                    let bytes = body.buffer().map_err(|e| format!("body: {}", e))?.to_vec();
                    self.state.lock().unwrap().bodies.push((offset, bytes));
                },
                Ok(ChunkStream::EofWithCheckSum(size, checksum)) => {
                    self.state.lock().unwrap().fin = Some((size, checksum.to_string()));
                    return Ok(());
                },
                Err(err) => {
                    self.state.lock().unwrap().error = Some(err.clone());
                    return Err(err.into());
                },
            }
        }
        Err!("Chunk stream sender has been closed without a termination message")
    }
}

/// arg: {backup_path, group, name, passphrase, max: n|null, chunked: bool, out: file for the concatenated bodies}
pub fn op_upbackup(arg: &Value) -> Result<Value, String> {
    let s = |k: &str| arg.get(k).and_then(|x| x.as_str()).map(|x| x.to_owned()).ok_or(format!("missing {}", k));
    let state = Arc::new(Mutex::new(Collected::default()));
    let provider = MockUp {
        max: arg.get("max").and_then(|x| x.as_u64()),
        chunked: arg.get("chunked").and_then(|x| x.as_bool()).unwrap_or(false),
        stall_ms: arg.get("stall_ms").and_then(|x| x.as_u64()).unwrap_or(0),
        state: state.clone(),
    };
    take_logs();
    let storage = Storage::new_upload(provider, "/cloud");
    let result = storage.upload_backup(&s("backup_path")?, &s("group")?, &s("name")?, &s("passphrase")?);
    let st = state.lock().unwrap();
    let mut all = Vec::new();
    let mut bodies = Vec::new();
    for (offset, data) in &st.bodies {
        bodies.push(json!({"offset": offset, "len": data.len(), "sha256": hex::encode(Sha256::digest(data))}));
        all.extend_from_slice(data);
    }
    if let Ok(out) = s("out") {
        std::fs::File::create(&out).and_then(|mut f| f.write_all(&all)).map_err(|e| e.to_string())?;
    }
    Ok(json!({
        "result": if result.is_ok() { "ok" } else { "err" },
        "error": result.err().map(|e| e.to_string()),
        "bodies": bodies,
        "final": st.fin.as_ref().map(|(size, sum)| json!({"total": size, "checksum": sum})),
        "stream_error": st.error,
        "total": all.len(),
        "logs": logs_json(&take_logs()),
    }))
}
