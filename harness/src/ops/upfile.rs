//! C05/C04: the real `UploadProvider::upload_file` of Dropbox / Yandex Disk / Google Drive, fed with a
//! synthetic ciphertext stream through the real `stream_splitter::split`, talking to the provider
//! emulator through the `cfg(vsb_verif)` URL rewrite.
use std::sync::mpsc;
use std::io::Write;

use bytes::Bytes;
use serde_json::{json, Value};

use crate::providers::UploadProvider;
use crate::providers::dropbox::Dropbox;
use crate::providers::google_drive::GoogleDrive;
use crate::providers::yandex_disk::YandexDisk;
use crate::util::stream_splitter::{self, Data};

use super::{take_logs, logs_json};

pub fn payload(seed: u64, index: usize, size: usize) -> Vec<u8> {
    let mut x = seed.wrapping_mul(6364136223846793005).wrapping_add(index as u64 + 1);
    (0..size).map(|_| { x = x.wrapping_mul(6364136223846793005).wrapping_add(1442695040888963407); (x >> 33) as u8 }).collect()
}

/// arg: {provider, dir, tmp, name, payloads: [size..], seed, ending: "eof"|"err"|"hangup", url_map}
pub fn op_upfile(arg: &Value) -> Result<Value, String> {
    let s = |k: &str| arg.get(k).and_then(|x| x.as_str()).map(|x| x.to_owned()).ok_or(format!("missing {}", k));
    let provider_name = s("provider")?;
    let (dir, tmp, name, ending) = (s("dir")?, s("tmp")?, s("name")?, s("ending")?);
    let seed = arg.get("seed").and_then(|x| x.as_u64()).unwrap_or(1);
    let sizes: Vec<usize> = arg.get("payloads").and_then(|x| x.as_array()).ok_or("payloads")?
        .iter().map(|x| x.as_u64().unwrap_or(0) as usize).collect();
    std::env::set_var("VSB_VERIF_URL_MAP", s("url_map")?);
    match arg.get("max_request_size").and_then(|x| x.as_u64()) {
        Some(m) => std::env::set_var("VSB_VERIF_MAX_REQUEST_SIZE", m.to_string()),
        None => std::env::remove_var("VSB_VERIF_MAX_REQUEST_SIZE"),
    }
    take_logs();

    let provider: Box<dyn UploadProvider> = match provider_name.as_str() {
        "dropbox" => Box::new(Dropbox::new("id", "secret", "refresh").map_err(|e| e.to_string())?),
        "yandex" => Box::new(YandexDisk::new("id", "secret", "refresh").map_err(|e| e.to_string())?),
        "google" => Box::new(GoogleDrive::new("id", "secret", "refresh")),
        _ => return Err("provider".to_owned()),
    };

    let (tx, rx) = mpsc::sync_channel(2);
    let mut hasher = provider.hasher();
    let feeder = std::thread::spawn(move || {
        for (i, size) in sizes.iter().enumerate() {
            let data = payload(seed, i, *size);
            let _ = hasher.write_all(&data);
            if tx.send(Ok(Data::Payload(Bytes::from(data)))).is_err() {
                return;
            }
        }
        match ending.as_str() {
            "eof" => { let _ = tx.send(Ok(Data::EofWithChecksum(hasher.finish()))); },
            "err" => { let _ = tx.send(Err("scripted upstream failure".to_owned())); },
            _ => {},
        }
    });

    let (chunk_streams, splitter) = stream_splitter::split(rx, provider.max_request_size()).map_err(|e| e.to_string())?;
    let result = provider.upload_file(&dir, &tmp, &name, chunk_streams);
    let _ = feeder.join();
    let split_result = crate::util::sys::join_thread(splitter);

    Ok(json!({
        "result": if result.is_ok() { "ok" } else { "err" },
        "error": result.err().map(|e| e.to_string()),
        "splitter": split_result.err().map(|e| e.to_string()),
        "logs": logs_json(&take_logs()),
    }))
}
