//! C18: real hashers fed with a given fragmentation.
use std::io::Write;

use serde_json::{json, Value};

use crate::providers::UploadProvider;
use crate::util::hash::{ChunkedSha256, Hasher, Md5};
use super::bytes_of;

/// arg: {kind: "chunked"|"md5"|"dropbox"|"yandex"|"google", bs?: n, parts: [[bytes]..]}
/// or   {kind, bs?, gen: {parts: [len..], seed}} — bytes generated as (seed + 31*i) % 251.
pub fn op_chash(arg: &Value) -> Result<Value, String> {
    let kind = arg.get("kind").and_then(|k| k.as_str()).ok_or("kind")?;
    let mut hasher: Box<dyn Hasher> = match kind {
        "chunked" => Box::new(ChunkedSha256::new(arg.get("bs").and_then(|b| b.as_u64()).ok_or("bs")? as usize)),
        "md5" => Box::new(Md5::new()),
        "dropbox" => crate::providers::dropbox::Dropbox::new("i", "s", "r").map_err(|e| e.to_string())?.hasher(),
        "yandex" => crate::providers::yandex_disk::YandexDisk::new("i", "s", "r").map_err(|e| e.to_string())?.hasher(),
        "google" => crate::providers::google_drive::GoogleDrive::new("i", "s", "r").hasher(),
        _ => return Err("kind".into()),
    };
    let mode = arg.get("mode").and_then(|k| k.as_str()).unwrap_or("write_all");
    let mut consumed = Vec::new();
    if let Some(parts) = arg.get("parts").and_then(|p| p.as_array()) {
        for p in parts {
            let data = bytes_of(p)?;
            feed(&mut hasher, &data, mode, &mut consumed)?;
        }
    } else if let Some(g) = arg.get("gen") {
        let seed = g.get("seed").and_then(|s| s.as_u64()).unwrap_or(0);
        let mut i: u64 = 0;
        for p in g.get("parts").and_then(|p| p.as_array()).ok_or("gen.parts")? {
            let n = p.as_u64().ok_or("len")?;
            let data: Vec<u8> = (0..n).map(|k| ((seed + 31 * (i + k)) % 251) as u8).collect();
            i += n;
            feed(&mut hasher, &data, mode, &mut consumed)?;
        }
    } else {
        return Err("parts".into());
    }
    let hash = hasher.finish().to_string();
    Ok(json!({"hash": hash, "consumed": consumed}))
}

fn feed(hasher: &mut Box<dyn Hasher>, data: &[u8], mode: &str, consumed: &mut Vec<usize>) -> Result<(), String> {
    if mode == "write" {
        // single `write` calls: record how much each consumed, re-submit the rest like write_all
        // the loop of io::Write::write_all, recording what each `write` consumed
        let mut rest = data;
        while !rest.is_empty() {
            let n = hasher.write(rest).map_err(|e| e.to_string())?;
            consumed.push(n);
            if n == 0 { return Err("WriteZero".into()); }
            rest = &rest[n..];
        }
        Ok(())
    } else {
        hasher.write_all(data).map_err(|e| e.to_string())
    }
}
