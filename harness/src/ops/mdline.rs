//! C10: manifest lines through the real MetadataWriter/MetadataReader.
use serde_json::{json, Value};
use crate::priv_metadata as md;

fn s<'a>(v: &'a Value, k: &str) -> Result<&'a str, String> {
    v.get(k).and_then(|x| x.as_str()).ok_or_else(|| format!("missing {}", k))
}

fn item_json(item: &md::MetadataItem) -> Value {
    let (path, size, hash, unique, dev, ino, mt) = md::ext_fields(item);
    json!({"unique": unique, "hash": hash, "dev": dev.to_string(), "ino": ino.to_string(),
           "mtime_ns": mt.to_string(), "size": size.to_string(), "path": path})
}

pub fn op_mdline(arg: &Value) -> Result<Value, String> {
    let unique = arg.get("unique").and_then(|x| x.as_bool()).ok_or("unique")?;
    let item = md::ext_item(
        s(arg, "path")?, s(arg, "size")?.parse().map_err(|_| "size")?, s(arg, "hash")?, unique,
        s(arg, "dev")?.parse().map_err(|_| "dev")?, s(arg, "ino")?.parse().map_err(|_| "ino")?,
        s(arg, "mtime_ns")?.parse().map_err(|_| "mtime")?).map_err(|e| e.to_string())?;
    let line = md::ext_line(&item).map_err(|e| e.to_string())?;
    let items = md::ext_roundtrip(&item).map_err(|e| e.to_string())?;
    let decoded = if items.len() == 1 {
        match &items[0] { Ok(i) => item_json(i), Err(_) => Value::Null }
    } else {
        json!({"lines": items.len()})
    };
    Ok(json!({"line": line, "decoded": decoded,
              "valid_path": md::ext_validate_path(std::path::Path::new(s(arg, "path")?))}))
}

pub fn op_mdparse(arg: &Value) -> Result<Value, String> {
    match md::ext_decode(s(arg, "line")?) {
        Ok(i) => Ok(item_json(&i)),
        Err(_) => Ok(Value::Null),
    }
}
