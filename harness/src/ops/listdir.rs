//! C06: the real `ReadProvider::list_directory` of the three cloud providers against the emulator.
use serde_json::{json, Value};

use crate::providers::{FileType, ReadProvider};
use crate::providers::dropbox::Dropbox;
use crate::providers::google_drive::GoogleDrive;
use crate::providers::yandex_disk::YandexDisk;

use super::{take_logs, logs_json};

/// arg: {provider, path, url_map} -> {result: ok|notfound|err, entries: [[name, type]], error}
pub fn op_listdir(arg: &Value) -> Result<Value, String> {
    let s = |k: &str| arg.get(k).and_then(|x| x.as_str()).map(|x| x.to_owned()).ok_or(format!("missing {}", k));
    std::env::set_var("VSB_VERIF_URL_MAP", s("url_map")?);
    take_logs();
    let provider: Box<dyn ReadProvider> = match s("provider")?.as_str() {
        "dropbox" => Box::new(Dropbox::new("id", "secret", "refresh").map_err(|e| e.to_string())?),
        "yandex" => Box::new(YandexDisk::new("id", "secret", "refresh").map_err(|e| e.to_string())?),
        "google" => Box::new(GoogleDrive::new("id", "secret", "refresh")),
        _ => return Err("provider".to_owned()),
    };
    Ok(match provider.list_directory(&s("path")?) {
        Ok(Some(files)) => json!({"result": "ok", "entries": files.iter().map(|f| json!([f.name, match f.type_ {
            FileType::File => "file", FileType::Directory => "dir", FileType::Other => "other"}])).collect::<Vec<_>>()}),
        Ok(None) => json!({"result": "notfound"}),
        Err(e) => json!({"result": "err", "error": e.to_string(), "logs": logs_json(&take_logs())}),
    })
}
