//! C17: the real `stream_splitter::split` / `splitter` driven by a scripted producer and consumer.
use std::io::Read;
use std::sync::mpsc;
use std::thread;
use std::time::Duration;

use bytes::Bytes;
use serde_json::{json, Value};

use crate::util::hash::Hash;
use crate::util::stream_splitter::{self, ChunkStream, Data};
use super::{bytes_of, opt_u64};

fn sleep_us(us: u64) {
    if us != 0 { thread::sleep(Duration::from_micros(us)); }
}

/// arg: {max, budget, msgs:[{p:[..]}|{eof:n}|{err:s}], delays?:{prod,cons} (µs per channel op)}
/// The checksum `n` is carried as the one-byte-per-digit Hash of its decimal representation.
pub fn op_split(arg: &Value) -> Result<Value, String> {
    let max = opt_u64(arg, "max");
    let budget = opt_u64(arg, "budget");
    let prod_delay = arg.pointer("/delays/prod").and_then(|x| x.as_u64()).unwrap_or(0);
    let cons_delay = arg.pointer("/delays/cons").and_then(|x| x.as_u64()).unwrap_or(0);
    let msgs = arg.get("msgs").and_then(|m| m.as_array()).ok_or("msgs")?.clone();

    // Same channel shape as Encryptor::new: sync_channel(2).
    let (tx, rx) = mpsc::sync_channel::<Result<Data, String>>(2);
    let producer = thread::spawn(move || {
        for m in msgs {
            sleep_us(prod_delay);
            let msg = if let Some(p) = m.get("p") {
                Ok(Data::Payload(Bytes::from(bytes_of(p).unwrap())))
            } else if let Some(c) = m.get("eof") {
                let digits = c.as_u64().unwrap().to_string();
                Ok(Data::EofWithChecksum(Hash::from(digits.as_bytes())))
            } else {
                Err(m.get("err").and_then(|e| e.as_str()).unwrap().to_owned())
            };
            if tx.send(msg).is_err() {
                return false; // the splitter went away
            }
        }
        true
    });

    let (streams, handle) = stream_splitter::split(rx, max).map_err(|e| e.to_string())?;

    // Consumer: performs at most `budget` successful receives, then drops everything.
    let mut evs = Vec::new();
    let mut left = budget;
    let mut take = |left: &mut Option<u64>| -> bool {
        match left {
            None => true,
            Some(0) => false,
            Some(n) => { *n -= 1; true }
        }
    };
    'outer: loop {
        if left == Some(0) { break; }
        sleep_us(cons_delay);
        let item = match streams.recv() {
            Ok(item) => item,
            Err(_) => break, // splitter hung up
        };
        take(&mut left);
        match item {
            Ok(ChunkStream::Stream(offset, chunks)) => {
                evs.push(json!({"stream": offset}));
                loop {
                    if left == Some(0) { break 'outer; }
                    sleep_us(cons_delay);
                    match chunks.recv() {
                        Ok(Ok(data)) => {
                            take(&mut left);
                            evs.push(json!({"chunk": data.to_vec()}));
                        },
                        Ok(Err(e)) => {
                            take(&mut left);
                            evs.push(json!({"chunk_err": e}));
                        },
                        Err(_) => { evs.push(json!("close")); break; }
                    }
                }
            },
            Ok(ChunkStream::EofWithCheckSum(size, checksum)) => {
                let digits: String = hex::decode(checksum.to_string()).unwrap().iter().map(|b| *b as char).collect();
                evs.push(json!({"eof": [size, digits.parse::<u64>().unwrap()]}));
            },
            Err(e) => evs.push(json!({"err": e})),
        }
    }
    drop(streams);

    let res = match handle.join() {
        Ok(Ok(())) => "ok".to_owned(),
        Ok(Err(e)) => {
            let s = e.to_string();
            if s.contains("Unable to receive a new message") { "recvClosed".into() }
            else if s.contains("Unable to send a new stream") { "sendClosed".into() }
            else if s.contains("after a termination message") { "afterTermination".into() }
            else { format!("other:{}", s) }
        },
        Err(_) => "panic".to_owned(),
    };
    let _ = producer.join();
    Ok(json!({"evs": evs, "res": res}))
}

/// arg: {msgs:[{ok:[..]}|{err:s}], bufs:[n..]} — the private `StreamReader` read with the given
/// buffer sizes, one result per read.
pub fn op_streamread(arg: &Value) -> Result<Value, String> {
    let msgs = arg.get("msgs").and_then(|m| m.as_array()).ok_or("msgs")?;
    let bufs = arg.get("bufs").and_then(|m| m.as_array()).ok_or("bufs")?;
    let (tx, rx) = mpsc::sync_channel::<Result<Bytes, String>>(msgs.len() + 1);
    for m in msgs {
        let msg = if let Some(p) = m.get("ok") {
            Ok(Bytes::from(bytes_of(p)?))
        } else {
            Err(m.get("err").and_then(|e| e.as_str()).ok_or("err")?.to_owned())
        };
        tx.send(msg).map_err(|_| "send")?;
    }
    drop(tx);
    let mut reader = crate::priv_body::ext_stream_reader(rx);
    let mut out = Vec::new();
    for b in bufs {
        let n = b.as_u64().ok_or("buf")? as usize;
        let mut buf = vec![0u8; n];
        let r = std::panic::catch_unwind(std::panic::AssertUnwindSafe(|| reader.read(&mut buf)));
        match r {
            Err(_) => { out.push(json!("panic")); break; }
            Ok(Ok(0)) => out.push(json!("eof")),
            Ok(Ok(k)) => out.push(json!({"data": buf[..k].to_vec()})),
            Ok(Err(e)) => out.push(json!({"error": e.to_string()})),
        }
    }
    Ok(Value::Array(out))
}
