//! C13 / C07 / C03: the real listing, verification and age check.
use std::time::Duration;
use serde_json::{json, Value};

use crate::providers::filesystem::Filesystem;
use crate::storage::{Backup, BackupGroup, Storage};
use super::{take_logs, logs_json};

fn groups_json(groups: &[BackupGroup]) -> Value {
    Value::Array(groups.iter().map(|g| json!({
        "name": g.name,
        "backups": g.backups.iter().map(|b| b.name.clone()).collect::<Vec<_>>(),
        "temps": g.temporary_backups.iter().map(|b| b.name.clone()).collect::<Vec<_>>(),
    })).collect())
}

/// arg: {root} -> listing without verification
pub fn op_listgroups(arg: &Value) -> Result<Value, String> {
    let root = arg.get("root").and_then(|x| x.as_str()).ok_or("root")?;
    take_logs();
    let storage = Storage::new_read_only(Filesystem::new(), root);
    match storage.get_backup_groups(false) {
        Ok((groups, ok)) => Ok(json!({"result": "ok", "ok": ok, "groups": groups_json(&groups), "logs": logs_json(&take_logs())})),
        Err(e) => Ok(json!({"result": "err", "error": e.to_string(), "logs": logs_json(&take_logs())})),
    }
}

/// arg: {root} -> `get_backup_groups(true)`
pub fn op_verify(arg: &Value) -> Result<Value, String> {
    let root = arg.get("root").and_then(|x| x.as_str()).ok_or("root")?;
    take_logs();
    let storage = Storage::new_read_only(Filesystem::new(), root);
    match storage.get_backup_groups(true) {
        Ok((groups, ok)) => Ok(json!({"result": "ok", "ok": ok, "groups": groups_json(&groups), "logs": logs_json(&take_logs())})),
        Err(e) => Ok(json!({"result": "err", "error": e.to_string(), "logs": logs_json(&take_logs())})),
    }
}

/// arg: {groups: [[backup names..]..], max_age: secs|null} -> error/warn lines of check_backups
/// (the clock is whatever the process sees; the orchestrator fakes it through the interposer).
pub fn op_age(arg: &Value) -> Result<Value, String> {
    let mut groups = Vec::new();
    for (i, g) in arg.get("groups").and_then(|x| x.as_array()).ok_or("groups")?.iter().enumerate() {
        let mut group = BackupGroup::new(&format!("group-{}", i));
        for b in g.as_array().ok_or("group")? {
            let name = b.as_str().ok_or("name")?;
            group.backups.push(Backup::new(&format!("/x/{}", name), name));
        }
        groups.push(group);
    }
    let max = arg.get("max_age").and_then(|x| x.as_u64()).map(Duration::from_secs);
    let storage = Storage::new_read_only(Filesystem::new(), "/nonexistent-root");
    take_logs();
    crate::priv_check::check_backups(&storage, &groups, true, max);
    let logs = take_logs();
    let class = |m: &str| -> &'static str {
        if m.contains("have no backups") { "no-backups" }
        else if m.contains("doesn't have any backup for last") { "stale" }
        else if m.contains("in the future") { "future" }
        else if m.contains("Failed to determine a time") { "bad-name" }
        else if m.contains("has an empty") { "empty-group" }
        else { "other" }
    };
    let classes: Vec<Value> = logs.iter().filter(|(l, _)| *l == log::Level::Error).map(|(_, m)| json!(class(m))).collect();
    Ok(json!({"errors": classes, "logs": logs_json(&logs)}))
}

pub fn op_duration(arg: &Value) -> Result<Value, String> {
    let s = arg.get("s").and_then(|x| x.as_str()).ok_or("s")?;
    Ok(match crate::priv_upconfig::ext_parse_duration(s) { Some(n) => json!(n), None => Value::Null })
}
