//! C14: the real PathFilter.
use std::path::Path;
use serde_json::{json, Value};
use crate::backuping::PathFilter;

/// arg: {spec, paths:[..]} -> {"error": "rule"|"glob"} | {"results":[bool..]}
pub fn op_filter(arg: &Value) -> Result<Value, String> {
    let spec = arg.get("spec").and_then(|x| x.as_str()).ok_or("spec")?;
    let filter = match PathFilter::new(spec) {
        Ok(f) => f,
        Err(e) => {
            let m = e.to_string();
            return Ok(json!({"error": if m.starts_with("Invalid glob") { "glob" } else { "rule" }, "message": m}));
        }
    };
    let mut results = Vec::new();
    for p in arg.get("paths").and_then(|x| x.as_array()).ok_or("paths")? {
        let p = p.as_str().ok_or("path")?;
        results.push(filter.check(Path::new(p)).map_err(|e| e.to_string())?);
    }
    Ok(json!({"results": results}))
}
