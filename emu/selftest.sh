#!/usr/bin/env bash
#
# Self-test of the provider emulator + the vsb_verif hook.
#
#   1. exports /repo HEAD into a scratch tree under /var/tmp, applies hook.patch, builds vsb with
#      RUSTFLAGS='--cfg vsb_verif' (cargo build --offline, private CARGO_TARGET_DIR)
#   2. creates a local storage with two backups (`vsb backup`)
#   3. for dropbox, yandex-disk, google-drive: `vsb upload` against the emulator and checks the
#      result (namespace contents, gpg decryption, byte identity, idempotent second run)
#   4. one Dropbox run per fault kind
#
# Prints PASS/FAIL lines; exit status 0 only when every check passed.  Everything created under
# /var/tmp is removed on exit.  Environment: VSB_REPO (default /repo), KEEP=1 keeps the scratch dir.

set -u

HERE=$(cd "$(dirname "$0")" && pwd)
EMU="$HERE/provider_emu.py"
PATCH="$HERE/hook.patch"
REPO=${VSB_REPO:-/repo}
PASSPHRASE="pass phrase"
UPLOAD_PATH=/Backups/test

ROOT=$(mktemp -d /var/tmp/vsb-emu-selftest.XXXXXX) || exit 1
TREE=$ROOT/tree
VSB=$ROOT/target/debug/vsb
export GNUPGHOME=$ROOT/gnupg
export TZ=UTC
export PYTHONDONTWRITEBYTECODE=1

EMU_PID=""
CHECKS=0
FAILED=0

cleanup() {
    stop_emulator >/dev/null 2>&1
    gpgconf --kill gpg-agent >/dev/null 2>&1
    if [ "${KEEP:-0}" = 1 ]; then
        echo "scratch directory kept: $ROOT"
    else
        rm -rf "$ROOT"
    fi
}
trap cleanup EXIT
trap 'exit 130' INT TERM

pass() { CHECKS=$((CHECKS + 1)); echo "PASS: $*"; }
fail() { CHECKS=$((CHECKS + 1)); FAILED=$((FAILED + 1)); echo "FAIL: $*"; }

# check <description> <command...>: PASS when the command succeeds
check() {
    local description=$1; shift
    if "$@" >/dev/null 2>&1; then pass "$description"; else fail "$description"; fi
}

fatal() { fail "$*"; echo "SELFTEST FAILED ($FAILED of $CHECKS checks failed; aborted)"; exit 1; }

# ---------------------------------------------------------------------------------------------
# helpers
# ---------------------------------------------------------------------------------------------

# start_emulator <state-dir> [emulator options...]  -> sets EMU_PID, EMU_PORT, VSB_VERIF_URL_MAP
start_emulator() {
    local state=$1; shift
    mkdir -p "$state"
    : > "$state/emu.stdout"
    python3 "$EMU" --port 0 --state "$state" "$@" > "$state/emu.stdout" 2> "$state/emu.stderr" &
    EMU_PID=$!
    EMU_PORT=""
    for _ in $(seq 100); do
        EMU_PORT=$(awk '/^PORT /{print $2; exit}' "$state/emu.stdout")
        [ -n "$EMU_PORT" ] && break
        kill -0 "$EMU_PID" 2>/dev/null || break
        sleep 0.1
    done
    [ -n "$EMU_PORT" ] || { cat "$state/emu.stderr"; return 1; }
    local base="http://127.0.0.1:$EMU_PORT"
    VSB_VERIF_URL_MAP="https://www.dropbox.com/oauth2=$base/dropbox-oauth"
    VSB_VERIF_URL_MAP+=";https://api.dropboxapi.com/2=$base/dropbox-api"
    VSB_VERIF_URL_MAP+=";https://content.dropboxapi.com/2=$base/dropbox-content"
    VSB_VERIF_URL_MAP+=";https://oauth.yandex.ru=$base/yandex-oauth"
    VSB_VERIF_URL_MAP+=";https://cloud-api.yandex.net/v1/disk=$base/yandex-api"
    VSB_VERIF_URL_MAP+=";https://accounts.google.com/o/oauth2=$base/google-oauth"
    VSB_VERIF_URL_MAP+=";https://www.googleapis.com/drive/v3=$base/google-api"
    VSB_VERIF_URL_MAP+=";https://www.googleapis.com/upload/drive/v3=$base/google-upload"
    export VSB_VERIF_URL_MAP
}

# stop_emulator -> exit status of the emulator process (0 = clean SIGTERM shutdown)
stop_emulator() {
    [ -n "$EMU_PID" ] || return 0
    kill -TERM "$EMU_PID" 2>/dev/null
    wait "$EMU_PID" 2>/dev/null
    local status=$?
    EMU_PID=""
    return $status
}

ns() { python3 "$EMU" --state "$1" "${@:2}"; }

# log_query <state> <python expression over `entries` (list of dicts)> -> prints the value
log_query() {
    python3 - "$1/requests.jsonl" "$2" <<'EOF'
import json, sys
entries = [json.loads(line) for line in open(sys.argv[1]) if line.strip()]
print(eval(sys.argv[2]))
EOF
}

write_config() {  # <file> <provider name>
    cat > "$1" <<EOF
backups:
  - name: test
    path: $ROOT/storage
    backup:
      max_backup_groups: 2
      max_backups_per_group: 2
      items:
        - path: $ROOT/src
    upload:
      provider: {name: $2, client_id: id, client_secret: secret, refresh_token: token}
      path: $UPLOAD_PATH
      max_backup_groups: 2
      encryption_passphrase: "$PASSPHRASE"
EOF
}

# local backups as "<group>/<backup>" lines
local_backups() { (cd "$ROOT/storage" && find . -mindepth 2 -maxdepth 2 -type d | sed 's|^\./||' | sort); }

final_objects() {  # <state> <provider>: final-named backup objects in the namespace
    ns "$1" ls "$2" | awk '$1 == "f" {print $2}' | grep -E '/[0-9]{4}\.[0-9]{2}\.[0-9]{2}-[0-9:]{8}\.tar\.gpg$'
}

dot_objects() {  # <state> <provider>: entries whose name starts with a dot
    ns "$1" ls "$2" | awk '{print $2}' | grep -E '/\.[^/]*$'
}

# ---------------------------------------------------------------------------------------------
# 1. build
# ---------------------------------------------------------------------------------------------

echo "== build (scratch: $ROOT)"
[ -f "$PATCH" ] || fatal "hook.patch exists"
if grep -E '^-([^-]|$)' "$PATCH" >/dev/null; then fail "hook.patch is add-only"; else pass "hook.patch is add-only"; fi

mkdir -p "$TREE" && git -C "$REPO" archive HEAD | tar -x -C "$TREE" || fatal "export of $REPO HEAD"
(cd "$TREE" && git apply --whitespace=nowarn "$PATCH") || fatal "hook.patch applies to $REPO HEAD"
pass "hook.patch applies to $REPO HEAD"

(cd "$TREE" && RUSTFLAGS='--cfg vsb_verif' CARGO_TARGET_DIR="$ROOT/target" cargo build --offline) \
    > "$ROOT/build.log" 2>&1 || { tail -30 "$ROOT/build.log"; fatal "cargo build --offline with --cfg vsb_verif"; }
[ -x "$VSB" ] || fatal "hooked vsb binary exists"
pass "cargo build --offline with --cfg vsb_verif"

# ---------------------------------------------------------------------------------------------
# 2. local storage with two backups
# ---------------------------------------------------------------------------------------------

echo "== local backups"
mkdir -p "$ROOT/storage" "$ROOT/src/sub"
mkdir -m 700 "$GNUPGHOME"
# vsb treats any gpg stderr output as an error.  The first gpg run in a fresh home prints "keybox
# created"/"trustdb created": warm the home up.  A gpg killed by vsb in the middle of a failed
# upload can leave an empty random_seed file behind, which makes the next gpg print "note:
# random_seed file is empty": disable the seed file.
echo no-random-seed-file > "$GNUPGHOME/gpg.conf"
gpg --batch --list-keys >/dev/null 2>&1
echo warm-up | gpg --batch --passphrase-fd 3 --symmetric --compress-algo none 3<<<"$PASSPHRASE" 2>"$ROOT/gpg-warmup.err" >/dev/null
[ -s "$ROOT/gpg-warmup.err" ] && { cat "$ROOT/gpg-warmup.err"; fail "gpg is silent in the prepared GNUPGHOME"; }

head -c 5500000 /dev/urandom > "$ROOT/src/big.bin"      # > 4 MiB: two Dropbox content_hash blocks
echo "hello" > "$ROOT/src/sub/a.txt"
for provider in dropbox yandex-disk google-drive; do write_config "$ROOT/$provider.yaml" "$provider"; done

"$VSB" -c "$ROOT/dropbox.yaml" backup test > "$ROOT/backup1.log" 2>&1 || { cat "$ROOT/backup1.log"; fatal "first vsb backup"; }
sleep 1.1
echo "more" > "$ROOT/src/sub/b.txt"
"$VSB" -c "$ROOT/dropbox.yaml" backup test > "$ROOT/backup2.log" 2>&1 || { cat "$ROOT/backup2.log"; fatal "second vsb backup"; }
BACKUPS=$(local_backups)
if [ "$(echo "$BACKUPS" | wc -l)" -eq 2 ]; then pass "two local backups created: $(echo $BACKUPS)"; else fatal "two local backups created"; fi

# ---------------------------------------------------------------------------------------------
# 3. plain uploads
# ---------------------------------------------------------------------------------------------

verify_objects() {  # <state> <emulator provider>
    local state=$1 provider=$2 entry group backup object out
    for entry in $BACKUPS; do
        group=${entry%%/*}; backup=${entry##*/}
        object="$UPLOAD_PATH/$group/$backup.tar.gpg"
        out="$state/extract-$backup"
        mkdir -p "$out"
        if ! ns "$state" cat "$provider" "$object" > "$out.gpg" 2>/dev/null; then
            fail "$provider: namespace holds $object"; continue
        fi
        pass "$provider: namespace holds $object"
        if ! gpg --batch --passphrase "$PASSPHRASE" --decrypt "$out.gpg" > "$out.tar" 2>"$out.gpg.err"; then
            fail "$provider: gpg decrypts $backup.tar.gpg"; continue
        fi
        pass "$provider: gpg decrypts $backup.tar.gpg"
        if [ "$(tar -tf "$out.tar" | sort | tr '\n' ' ')" = "$backup/ $backup/data.tar.zst $backup/metadata.zst " ]; then
            pass "$provider: tar members of $backup are <backup>/, data.tar.zst, metadata.zst"
        else
            fail "$provider: tar members of $backup are <backup>/, data.tar.zst, metadata.zst (got: $(tar -tf "$out.tar" | tr '\n' ' '))"
        fi
        tar -xf "$out.tar" -C "$out"
        if cmp -s "$out/$backup/data.tar.zst" "$ROOT/storage/$group/$backup/data.tar.zst" &&
           cmp -s "$out/$backup/metadata.zst" "$ROOT/storage/$group/$backup/metadata.zst"; then
            pass "$provider: $backup data.tar.zst and metadata.zst are byte-identical to the local files"
        else
            fail "$provider: $backup data.tar.zst and metadata.zst are byte-identical to the local files"
        fi
        # the emulator's independently computed checksums match the stored blob
        if python3 - "$HERE" "$state" "$provider" "$object" <<'EOF'
import hashlib, sys
sys.path.insert(0, sys.argv[1])
import provider_emu
ns = provider_emu.load_namespace(sys.argv[2], sys.argv[3])
node, data = ns.lookup(sys.argv[4]), ns.read_file(sys.argv[4])
blocks = b"".join(hashlib.sha256(data[i:i + 4194304]).digest() for i in range(0, len(data), 4194304))
ok = (node["md5"] == hashlib.md5(data).hexdigest() and node["sha256"] == hashlib.sha256(data).hexdigest()
      and node["content_hash"] == hashlib.sha256(blocks).hexdigest() and node["size"] == len(data))
sys.exit(0 if ok else 1)
EOF
        then pass "$provider: recorded md5/sha256/content_hash of $backup.tar.gpg match the blob"
        else fail "$provider: recorded md5/sha256/content_hash of $backup.tar.gpg match the blob"; fi
    done
}

plain_run() {  # <vsb provider name> <emulator provider> [emulator options for the first run...]
    local name=$1 provider=$2; shift 2
    local state=$ROOT/state-$provider rc seq uploads
    echo "== $name: plain upload"
    ns "$state" mkdir "$provider" "$UPLOAD_PATH" || fatal "$provider: pre-create $UPLOAD_PATH"
    start_emulator "$state" "$@" || fatal "$provider: emulator starts"

    "$VSB" -c "$ROOT/$name.yaml" upload > "$state/upload1.log" 2>&1; rc=$?
    if [ $rc -eq 0 ] && ! grep -qE '^[EW]:' "$state/upload1.log"; then
        pass "$provider: vsb upload exits 0 without E:/W: lines"
    else
        fail "$provider: vsb upload exits 0 without E:/W: lines (rc=$rc)"; sed 's/^/    | /' "$state/upload1.log"
    fi
    if stop_emulator; then pass "$provider: emulator exits 0 on SIGTERM"; else fail "$provider: emulator exits 0 on SIGTERM"; fi

    verify_objects "$state" "$provider"
    if [ -z "$(dot_objects "$state" "$provider")" ]; then pass "$provider: no dot-prefixed temporary left"
    else fail "$provider: no dot-prefixed temporary left: $(dot_objects "$state" "$provider")"; fi
    if [ "$(final_objects "$state" "$provider" | wc -l)" -eq 2 ]; then pass "$provider: exactly two backup objects"
    else fail "$provider: exactly two backup objects"; fi
    check "$provider: every upload request was logged with byte count and sha256" test "$(log_query "$state" \
        "all('body_bytes' in e and len(e['body_sha256']) == 64 for e in entries if e['upload']) and sum(e['body_bytes'] for e in entries if e['upload']) > 5500000")" = True
    check "$provider: no emulator bug notes in the log" test "$(log_query "$state" \
        "any('EMULATOR BUG' in e.get('note', '') for e in entries)")" = False

    # second run: restarted emulator (state reloaded from disk), listing page size 1
    seq=$(log_query "$state" "len(entries)")
    start_emulator "$state" --page-size 1 || fatal "$provider: emulator restarts on the saved state"
    "$VSB" -c "$ROOT/$name.yaml" upload > "$state/upload2.log" 2>&1; rc=$?
    stop_emulator
    if [ $rc -eq 0 ] && ! grep -qE '^[EW]:' "$state/upload2.log"; then
        pass "$provider: second vsb upload (restarted emulator, page size 1) exits 0 without E:/W: lines"
    else
        fail "$provider: second vsb upload exits 0 without E:/W: lines (rc=$rc)"; sed 's/^/    | /' "$state/upload2.log"
    fi
    uploads=$(log_query "$state" "sum(1 for e in entries[$seq:] if e['upload'] or e['method'] in ('PUT', 'PATCH', 'DELETE') or e['endpoint'] in ('move', 'create-folder', 'delete'))")
    new=$(log_query "$state" "len(entries) - $seq")
    if [ "$uploads" = 0 ] && [ "$new" -gt 0 ]; then pass "$provider: second run transferred nothing ($new read-only requests, 0 upload/mutating requests)"
    else fail "$provider: second run transferred nothing (upload/mutating requests: $uploads, new requests: $new)"; fi
}

plain_run dropbox dropbox
plain_run yandex-disk yandex --yandex-async always --op-polls 1
plain_run google-drive google

# ---------------------------------------------------------------------------------------------
# 4. Dropbox fault runs
# ---------------------------------------------------------------------------------------------

# fault_run <label> <fault kind expected in the log> <script json> <expect: error|ok> [grep pattern expected in vsb output]
fault_run() {
    local label=$1 kind=$2 script=$3 expect=$4 pattern=${5:-}
    local state=$ROOT/state-fault-$label rc applied started elapsed
    echo "== dropbox fault: $label"
    ns "$state" mkdir dropbox "$UPLOAD_PATH" || fatal "fault $label: pre-create $UPLOAD_PATH"
    echo "$script" > "$state/script.json"
    start_emulator "$state" --script "$state/script.json" || fatal "fault $label: emulator starts"
    started=$(date +%s%N)
    "$VSB" -c "$ROOT/dropbox.yaml" upload > "$state/upload.log" 2>&1; rc=$?
    elapsed=$(( ($(date +%s%N) - started) / 1000000 ))
    stop_emulator

    applied=$(log_query "$state" "sum(1 for e in entries if (e['fault'] or {}).get('kind') == '$kind' or ('$kind' == 'delay' and e['delay_ms'] > 0))")
    if [ "$applied" -gt 0 ]; then pass "fault $label: applied to $applied request(s)"; else fail "fault $label: applied to at least one request"; fi

    if [ "$expect" = error ]; then
        if [ $rc -ne 0 ] || grep -q '^E:' "$state/upload.log"; then
            pass "fault $label: vsb reports the failure (rc=$rc, $(grep -c '^E:' "$state/upload.log") E: lines)"
        else
            fail "fault $label: vsb reports the failure (rc=$rc, no E: line)"
        fi
        if [ -z "$(final_objects "$state" dropbox)" ]; then pass "fault $label: no final-named object appeared"
        else fail "fault $label: no final-named object appeared: $(final_objects "$state" dropbox | tr '\n' ' ')"; fi
    else
        if [ $rc -eq 0 ] && ! grep -q '^E:' "$state/upload.log" && [ "$(final_objects "$state" dropbox | wc -l)" -eq 2 ]; then
            pass "fault $label: upload still succeeds (rc=0, 2 objects, ${elapsed} ms)"
        else
            fail "fault $label: upload still succeeds (rc=$rc)"; sed 's/^/    | /' "$state/upload.log"
        fi
    fi
    if [ -n "$pattern" ]; then
        if grep -qE "$pattern" "$state/upload.log"; then pass "fault $label: vsb log matches /$pattern/"
        else fail "fault $label: vsb log matches /$pattern/"; sed 's/^/    | /' "$state/upload.log"; fi
    fi
    FAULT_STATE=$state
    FAULT_ELAPSED=$elapsed
}

M='"provider": "dropbox"'
fault_run status status \
    "[{\"fault\": \"status\", \"status\": 503, \"repeat\": true, \"match\": {$M, \"endpoint\": \"upload-append\"}}]" \
    error 'Dropbox API error: injected_fault'
fault_run text text \
    "[{\"fault\": \"text\", \"status\": 500, \"body\": \"Backend exploded.\", \"repeat\": true, \"match\": {$M, \"endpoint\": \"upload-finish\"}}]" \
    error 'Server returned an error: Backend exploded'
fault_run badjson badjson \
    "[{\"fault\": \"badjson\", \"repeat\": true, \"match\": {$M, \"endpoint\": \"upload-finish\"}}]" \
    error 'invalid JSON response'
check "fault badjson: the committed temporaries stay dot-prefixed" test "$(dot_objects "$FAULT_STATE" dropbox | wc -l)" -eq 2
fault_run noheader noheader \
    "[{\"fault\": \"noheader\", \"repeat\": true, \"match\": {$M, \"endpoint\": \"upload-start\"}}]" \
    error 'without Content-Type'
fault_run reset-before reset-before \
    "[{\"fault\": \"reset-before\", \"repeat\": true, \"match\": {$M, \"endpoint\": \"upload-append\"}}]" \
    error
fault_run reset-inside reset-inside \
    "[{\"fault\": \"reset-inside\", \"after_bytes\": 100000, \"repeat\": true, \"match\": {$M, \"endpoint\": \"upload-append\"}}]" \
    error
check "fault reset-inside: the emulator read exactly 100000 bytes of the big body (all 3-4 KB of the small one) and sent no response" test "$(log_query "$FAULT_STATE" \
    "sorted(e['body_bytes'] for e in entries if e['fault'])[1] == 100000 and 0 < min(e['body_bytes'] for e in entries if e['fault']) < 100000 and all(e['status'] is None for e in entries if e['fault'])")" = True
fault_run corrupt corrupt \
    "[{\"fault\": \"corrupt\", \"repeat\": true, \"match\": {$M}}]" \
    error 'Checksum mismatch'
check "fault corrupt: vsb deleted the corrupted temporaries (namespace has no files)" test "$(ns "$FAULT_STATE" ls dropbox | grep -c '^f')" -eq 0
fault_run rename-fail rename-fail \
    "[{\"fault\": \"rename-fail\", \"status\": 500, \"repeat\": true, \"match\": {$M}}]" \
    error 'Dropbox API error'
check "fault rename-fail: the verified temporaries stay dot-prefixed" test "$(dot_objects "$FAULT_STATE" dropbox | wc -l)" -eq 2
fault_run delay delay \
    "[{\"fault\": \"delay:400\", \"repeat\": true, \"match\": {$M, \"endpoint\": \"upload-append\"}}]" \
    ok
check "fault delay: the run took at least 800 ms (took $FAULT_ELAPSED ms)" test "$FAULT_ELAPSED" -ge 800
fault_run delay-timeout delay \
    "[{\"fault\": \"delay:6000\", \"repeat\": true, \"match\": {$M, \"endpoint\": \"token\"}}]" \
    error 'Unable obtain OAuth token'
fault_run seq-match status \
    "[{\"fault\": \"status\", \"status\": 401, \"match\": {\"seq\": 2}}]" \
    error 'Failed to list backup groups on Dropbox'

# ---------------------------------------------------------------------------------------------

echo
if [ "$FAILED" -eq 0 ]; then
    echo "SELFTEST PASSED ($CHECKS checks)"
    exit 0
fi
echo "SELFTEST FAILED ($FAILED of $CHECKS checks failed)"
exit 1
