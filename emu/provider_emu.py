#!/usr/bin/env python3
# -*- coding: utf-8 -*-
"""
provider_emu.py -- local plain-HTTP emulator of the cloud endpoints used by `vsb upload`
(Dropbox, Yandex Disk, Google Drive + their OAuth token endpoints) with scriptable faults.

Python 3 standard library only.

USAGE
=====
    provider_emu.py --port 0 --state <dir> [--script <file.json>] [options]      # serve
    provider_emu.py --state <dir> mkdir <provider> <path>                         # state tools
    provider_emu.py --state <dir> put   <provider> <path> <local-file>
    provider_emu.py --state <dir> cat   <provider> <path>      (bytes to stdout)
    provider_emu.py --state <dir> rm    <provider> <path>
    provider_emu.py --state <dir> ls    <provider>             ("d /path" / "f /path <size>")

  Serving: prints `PORT <n>` (one line, flushed) on stdout once the socket is listening
  (`--port 0` = pick a free port), serves on 127.0.0.1 until SIGTERM/SIGINT, then saves state,
  flushes + fsyncs the request log and exits with status 0.  Requests still being handled at that
  moment (e.g. sleeping in a `delay` fault) get up to --drain seconds (default 10) to finish, so
  that they are logged.

  Options: --bind ADDR (127.0.0.1), --page-size N (listing page size for all providers; defaults:
  dropbox 2000, yandex 20 (= the documented default `limit`), google 100), --yandex-async
  {auto,always} (auto: 202+operation only for non-empty directories; always: every move/delete
  answers 202), --op-polls N (how many times an operation answers "in-progress" before "success",
  default 0), --token-ttl SEC (expires_in of issued OAuth tokens, default 14400), --no-auth (do not
  validate Authorization headers), --drain SEC, --verbose (one line per request on stderr).

URL LAYOUT (what VSB_VERIF_URL_MAP has to map onto, see README.md)
==================================================================
    https://www.dropbox.com/oauth2             -> http://127.0.0.1:<port>/dropbox-oauth
    https://api.dropboxapi.com/2               -> http://127.0.0.1:<port>/dropbox-api
    https://content.dropboxapi.com/2           -> http://127.0.0.1:<port>/dropbox-content
    https://oauth.yandex.ru                    -> http://127.0.0.1:<port>/yandex-oauth
    https://cloud-api.yandex.net/v1/disk       -> http://127.0.0.1:<port>/yandex-api
    (upload href handed out by the emulator)      http://127.0.0.1:<port>/yandex-upload/...
    https://accounts.google.com/o/oauth2       -> http://127.0.0.1:<port>/google-oauth
    https://www.googleapis.com/drive/v3        -> http://127.0.0.1:<port>/google-api
    https://www.googleapis.com/upload/drive/v3 -> http://127.0.0.1:<port>/google-upload
  URLs returned inside responses (Yandex `href`s, Google `Location`) are built from the request's
  Host header, i.e. they already point at the emulator.
  Control endpoints (never logged, never faulted, do not consume sequence numbers):
    GET  /_emu/ping            -> {"ok": true, "seq": <last assigned seq>}
    POST /_emu/script  <json>  -> replace the fault script (rule counters restart from zero)
    POST /_emu/reload          -> re-read <state>/<provider>.json of all providers

ENDPOINT CLASSES (the `endpoint` used in the log and in fault rules; [aliases] also match)
=========================================================================================
  all      : token                                         POST <p>-oauth/token
  dropbox  : list-folder [list]                            POST /files/list_folder
             list-folder-continue [list]                   POST /files/list_folder/continue
             create-folder [mkdir]                         POST /files/create_folder_v2
             delete                                        POST /files/delete_v2
             move [rename]                                 POST /files/move_v2
             upload-start [upload]                         POST /files/upload_session/start
             upload-append [upload, upload-data]           POST /files/upload_session/append_v2
             upload-finish [upload, upload-commit]         POST /files/upload_session/finish
  yandex   : list / stat  (`stat` when `fields` is given and has no `_embedded`)  GET /resources
             mkdir                                         PUT /resources
             delete                                        DELETE /resources
             move [rename]                                 POST /resources/move
             upload-url [upload, upload-start]             GET /resources/upload
             upload-put [upload, upload-data]              PUT /yandex-upload/<token>
             operation                                     GET /operations/<id>
  google   : list                                          GET /files?q=...
             get-file [stat]                               GET /files/<id>
             delete                                        DELETE /files/<id>
             patch [rename]                                PATCH /files/<id>
             session-start [upload, upload-start]          POST /files?uploadType=resumable,
                                                           PATCH /files/<id>?uploadType=resumable
             session-put [upload, upload-data]             PUT /files[/<id>]?uploadType=resumable&upload_id=<sid>
  anything else: unknown (answered 404)

FAULT SCRIPT (--script file, or POST /_emu/script): a JSON list of rules
========================================================================
    [ {"fault": "<kind>", "match": {...}, ...options...}, ... ]

  match (all given keys must hold; keys may also be written at the top level of the rule):
    "seq": N            global request sequence number (1-based, counts every logged request)
    "provider": "dropbox" | "yandex" | "google"
    "endpoint": "<endpoint class or alias>"       (see the table above)
    "method": "GET" | "POST" | ...
    "nth": K            fire on the K-th request (1-based, default 1) that satisfies the
                        provider/endpoint/method filter of THIS rule, counted since the script
                        was installed
  "repeat": true        fire on every matching request from the K-th on (default: fire once)

  Rules are evaluated in list order for every request.  All firing `delay` rules are applied;
  of the other kinds only the FIRST firing rule is applied to a request.

  kinds:
    "status"        read the request, do NOT perform it, answer "status" (default 503) with a
                    provider-shaped application/json error body.  Options: "status", "body" (JSON
                    value replacing the generated body), "error" (short error tag/message put
                    into the generated body).
    "text"          like status but with a text/plain body ("body": string, default
                    "Injected fault.").
    "badjson"       perform the request (unless "apply": false), answer 2xx ("status", default the
                    normal one or 200) with Content-Type application/json and a malformed body.
    "nofield"       perform the request (unless "apply": false) and answer 2xx with a well-formed JSON object that
                    lacks every field the client needs: `{}`.
    "noheader"      perform the request (unless "apply": false), answer normally but without the
                    Content-Type header; for Google session-start: without the Location header.
    "reset-before"  close the connection without reading the body and without sending anything.
    "reset-inside"  read "after_bytes" (default 1) bytes of the request body (all of it when it
                    is shorter), then close the socket with SO_LINGER 0 (TCP RST) without sending
                    anything.  Nothing is performed.
    "corrupt"       accept the upload but flip one byte ("offset", default middle) of what gets
                    stored, so every checksum the emulator reports (computed from the stored
                    bytes) differs from the client's.  Default endpoint filter: upload-data
                    (dropbox upload-append, yandex upload-put, google session-put); may also be
                    aimed at dropbox upload-start / upload-finish.
    "rename-fail"   the final rename (dropbox move, yandex move, google patch) is not performed and
                    answers "status" (default 500) with a provider-shaped JSON error.  Default
                    endpoint filter: rename.
    "async-fail"    (yandex move) the move is answered 202 with an operation link, the operation ends as
                    "failed" and nothing is moved.  Default endpoint filter: rename.
    "delay:<ms>"    sleep before handling the request (also: "fault": "delay", "ms": N).  Any
                    other rule may additionally carry "delay_ms": N.

  Example:
    [ {"fault": "delay:200", "match": {"provider": "dropbox"}, "repeat": true},
      {"fault": "status", "status": 429, "match": {"provider": "dropbox", "endpoint": "upload-append", "nth": 2}},
      {"fault": "reset-inside", "after_bytes": 1000, "match": {"seq": 17}} ]

STATE (<state>/)
================
  <provider>.json   provider in dropbox|yandex|google, rewritten atomically after every mutating
                    request (and at exit):
      {"format": 1, "provider": "dropbox", "next_id": 7,
       "root": {"id": "d000000", "type": "dir", "name": "", "children": [
           {"id": "d000001", "type": "dir", "name": "Backups", "children": [...]},
           {"id": "d000005", "type": "file", "name": "x.tar.gpg", "size": 123,
            "mime": "application/octet-stream", "modified": "2026-01-01T00:00:00Z",
            "blob": "blobs/dropbox/d000005",
            "md5": "...", "sha256": "...", "content_hash": "..."} ]}}
      `children` is a list (Google Drive allows several children with the same name; Dropbox
      names are unique case-insensitively, Yandex names case-sensitively).  `blob` is relative to
      <state>.  The three checksums are always computed with hashlib from the stored bytes.
  blobs/<provider>/<id>   file contents.
  requests.jsonl    one JSON object per handled request, appended when the request is finished:
      {"run": "1767225600-4242", "seq": 12, "time": 1767225600.123, "provider": "dropbox", "area": "content",
       "endpoint": "upload-append", "upload": true, "method": "POST",
       "path": "/dropbox-content/files/upload_session/append_v2", "query": {},
       "headers": {"authorization": "...", "content-type": "...", "dropbox-api-arg": "...", ...},
       "body_bytes": 5243915, "body_sha256": "...", "body_text": <request body if it is short JSON/form>,
       "status": 200, "fault": null | {"rule": 1, "kind": "status", ...}, "delay_ms": 0,
       "note": "..." (optional: "connection reset by emulator", "client disconnected", ...)}
      `seq` restarts from 1 in every emulator process (`run` = "<start time>-<pid>" tells the
      processes apart; the file is appended to).  `status` is null when no response was sent.  body_bytes/body_sha256 describe the request
      body bytes actually received (after de-chunking, before any `corrupt` fault).
  Upload sessions, upload URLs, operations, listing cursors and issued OAuth tokens live in
  memory only.

  Python helpers (import provider_emu): load_namespace(state_dir, provider) -> Namespace,
  save_namespace(state_dir, ns); Namespace.mkdir(path, parents=True), .put_file(path, data),
  .read_file(path), .lookup(path), .remove(path), .tree() -> {path: ("dir", None) | ("file", size)}.
  The running emulator reads the files at start-up (and on POST /_emu/reload) only.
"""

import argparse
import hashlib
import io
import json
import os
import re
import signal
import socket
import struct
import sys
import threading
import time
import urllib.parse
from http.server import BaseHTTPRequestHandler, ThreadingHTTPServer

PROVIDERS = ("dropbox", "yandex", "google")
FOLDER_MIME = "application/vnd.google-apps.folder"
DROPBOX_BLOCK = 4 * 1024 * 1024
DEFAULT_PAGE = {"dropbox": 2000, "yandex": 20, "google": 100}

LOGGED_HEADERS = ("host", "authorization", "content-type", "content-length", "transfer-encoding",
                  "dropbox-api-arg", "accept", "user-agent", "content-range", "expect")


# ---------------------------------------------------------------------------------------------
# Checksums (independent of vsb: plain hashlib over the bytes we hold)
# ---------------------------------------------------------------------------------------------

def dropbox_content_hash(data):
    outer = hashlib.sha256()
    for pos in range(0, len(data), DROPBOX_BLOCK):
        outer.update(hashlib.sha256(data[pos:pos + DROPBOX_BLOCK]).digest())
    return outer.hexdigest()


def checksums(data):
    return {
        "md5": hashlib.md5(data).hexdigest(),
        "sha256": hashlib.sha256(data).hexdigest(),
        "content_hash": dropbox_content_hash(data),
    }


def iso_now():
    return time.strftime("%Y-%m-%dT%H:%M:%SZ", time.gmtime())


# ---------------------------------------------------------------------------------------------
# Namespace: a tree of folders and files, persisted to <state>/<provider>.json + blobs
# ---------------------------------------------------------------------------------------------

class NamespaceError(Exception):
    pass


class Namespace:
    def __init__(self, provider, state_dir, data=None):
        if provider not in PROVIDERS:
            raise NamespaceError("unknown provider %r" % (provider,))
        self.provider = provider
        self.state_dir = state_dir
        self.prefix = provider[0]
        if data is None:
            data = {"format": 1, "provider": provider, "next_id": 1,
                    "root": {"id": self.prefix + "000000", "type": "dir", "name": "", "children": []}}
        self.next_id = int(data.get("next_id", 1))
        self.root = data["root"]

    # -- names ------------------------------------------------------------------------------
    def same_name(self, a, b):
        if self.provider == "dropbox":
            return a.lower() == b.lower()
        return a == b

    @staticmethod
    def split(path):
        if path in ("", "/"):
            return []
        if not path.startswith("/"):
            raise NamespaceError("path must be absolute: %r" % (path,))
        parts = path.strip("/").split("/")
        if any(p in ("", ".", "..") for p in parts):
            raise NamespaceError("invalid path: %r" % (path,))
        return parts

    def new_id(self):
        ident = "%s%06d" % (self.prefix, self.next_id)
        self.next_id += 1
        return ident

    # -- lookups ----------------------------------------------------------------------------
    def children_named(self, dirnode, name):
        return [c for c in dirnode["children"] if self.same_name(c["name"], name)]

    def resolve(self, path):
        """-> (node, parent, display_path) or (None, None, None); first match on duplicates."""
        node, parent, display = self.root, None, ""
        for part in self.split(path):
            if node["type"] != "dir":
                return None, None, None
            found = self.children_named(node, part)
            if not found:
                return None, None, None
            parent, node = node, found[0]
            display += "/" + node["name"]
        return node, parent, display or "/"

    def lookup(self, path):
        return self.resolve(path)[0]

    def exists(self, path):
        return self.lookup(path) is not None

    def find_id(self, ident):
        """-> (node, parent, display_path) for a node id, or (None, None, None)."""
        stack = [(self.root, None, "")]
        while stack:
            node, parent, display = stack.pop()
            if node["id"] == ident:
                return node, parent, display or "/"
            if node["type"] == "dir":
                for child in node["children"]:
                    stack.append((child, node, display + "/" + child["name"]))
        return None, None, None

    def walk(self):
        """yields (path, node) depth-first, parents before children, root excluded."""
        def rec(node, path):
            for child in node["children"]:
                child_path = path + "/" + child["name"]
                yield child_path, child
                if child["type"] == "dir":
                    yield from rec(child, child_path)
        yield from rec(self.root, "")

    def tree(self):
        return {path: ("dir", None) if node["type"] == "dir" else ("file", node["size"])
                for path, node in self.walk()}

    # -- mutation ---------------------------------------------------------------------------
    def new_dir(self, parent, name):
        node = {"id": self.new_id(), "type": "dir", "name": name, "modified": iso_now(), "children": []}
        parent["children"].append(node)
        return node

    def mkdir(self, path, parents=True, exist_ok=True):
        node = self.root
        parts = self.split(path)
        for index, part in enumerate(parts):
            found = self.children_named(node, part)
            if found:
                child = found[0]
                if child["type"] != "dir":
                    raise NamespaceError("%r is not a directory" % ("/" + "/".join(parts[:index + 1]),))
                if index == len(parts) - 1 and not exist_ok:
                    raise NamespaceError("%r already exists" % (path,))
                node = child
            else:
                if index != len(parts) - 1 and not parents:
                    raise NamespaceError("parent of %r does not exist" % (path,))
                node = self.new_dir(node, part)
        return node

    def blob_path(self, node):
        return os.path.join(self.state_dir, node["blob"])

    def set_content(self, node, data, mime=None):
        node["blob"] = "blobs/%s/%s" % (self.provider, node["id"])
        path = self.blob_path(node)
        os.makedirs(os.path.dirname(path), exist_ok=True)
        tmp = path + ".tmp"
        with open(tmp, "wb") as blob:
            blob.write(data)
        os.replace(tmp, path)
        node["size"] = len(data)
        node["modified"] = iso_now()
        if mime is not None or "mime" not in node:
            node["mime"] = mime or "application/octet-stream"
        node.update(checksums(data))

    def new_file(self, parent, name, data, mime=None):
        node = {"id": self.new_id(), "type": "file", "name": name}
        self.set_content(node, data, mime)
        parent["children"].append(node)
        return node

    def put_file(self, path, data, mime=None, parents=True):
        parts = self.split(path)
        if not parts:
            raise NamespaceError("cannot write the root")
        parent = self.mkdir("/" + "/".join(parts[:-1]), parents=parents) if parts[:-1] else self.root
        found = self.children_named(parent, parts[-1])
        if found:
            if found[0]["type"] != "file":
                raise NamespaceError("%r is a directory" % (path,))
            self.set_content(found[0], data, mime)
            return found[0]
        return self.new_file(parent, parts[-1], data, mime)

    def read_node(self, node):
        with open(self.blob_path(node), "rb") as blob:
            return blob.read()

    def read_file(self, path):
        node = self.lookup(path)
        if node is None or node["type"] != "file":
            raise NamespaceError("%r is not a file" % (path,))
        return self.read_node(node)

    def drop_blobs(self, node):
        if node["type"] == "file":
            try:
                os.unlink(self.blob_path(node))
            except OSError:
                pass
        else:
            for child in node["children"]:
                self.drop_blobs(child)

    def detach(self, node, parent):
        parent["children"] = [c for c in parent["children"] if c is not node]

    def remove_node(self, node, parent):
        self.detach(node, parent)
        self.drop_blobs(node)

    def remove(self, path):
        node, parent, _ = self.resolve(path)
        if node is None or parent is None:
            raise NamespaceError("%r does not exist" % (path,))
        self.remove_node(node, parent)

    # -- persistence ------------------------------------------------------------------------
    def to_json(self):
        return {"format": 1, "provider": self.provider, "next_id": self.next_id, "root": self.root}

    def save(self):
        os.makedirs(self.state_dir, exist_ok=True)
        path = os.path.join(self.state_dir, self.provider + ".json")
        tmp = path + ".tmp"
        with open(tmp, "w") as out:
            json.dump(self.to_json(), out, indent=1, sort_keys=True)
            out.write("\n")
        os.replace(tmp, path)


def load_namespace(state_dir, provider):
    """Load <state_dir>/<provider>.json (an empty namespace when the file does not exist)."""
    path = os.path.join(state_dir, provider + ".json")
    data = None
    if os.path.exists(path):
        with open(path) as src:
            data = json.load(src)
        if data.get("provider", provider) != provider:
            raise NamespaceError("%s belongs to provider %r" % (path, data.get("provider")))
    return Namespace(provider, state_dir, data)


def save_namespace(state_dir, ns):
    """Persist a Namespace (blobs are written when content is set; this writes the JSON index)."""
    ns.state_dir = state_dir
    ns.save()


# ---------------------------------------------------------------------------------------------
# HTTP plumbing
# ---------------------------------------------------------------------------------------------

class Response:
    def __init__(self, status, headers=None, body=b""):
        self.status = status
        self.headers = dict(headers or {})
        self.body = body


class ApiError(Exception):
    """Raised by provider handlers; carries a complete response."""
    def __init__(self, response):
        Exception.__init__(self, "api error %d" % response.status)
        self.response = response


class ClientGone(Exception):
    def __init__(self, received):
        Exception.__init__(self, "client disconnected")
        self.received = received


JSON_TYPES = {
    "dropbox": "application/json",
    "yandex": "application/json; charset=utf-8",
    "google": "application/json; charset=UTF-8",
    "oauth": "application/json",
}


def json_response(kind, status, obj, headers=None):
    hdrs = {"Content-Type": JSON_TYPES[kind]}
    hdrs.update(headers or {})
    return Response(status, hdrs, json.dumps(obj, ensure_ascii=False).encode("utf-8"))


def text_response(status, text):
    return Response(status, {"Content-Type": "text/plain; charset=utf-8"}, text.encode("utf-8"))


class Request:
    def __init__(self):
        self.seq = None
        self.method = None
        self.target = None
        self.path = None
        self.query = {}          # name -> first value
        self.provider = None
        self.area = None         # oauth | api | content | upload
        self.rest = None         # path below the prefix
        self.endpoint = "unknown"
        self.aliases = ()
        self.headers = None
        self.base_url = None
        self.body = b""
        self.fault = None        # the firing non-delay Rule (or None)
        self.corrupt_done = False
        self.note = None

    def header(self, name, default=None):
        return self.headers.get(name, default)

    def want_corrupt(self):
        return self.fault is not None and self.fault.kind == "corrupt" and not self.corrupt_done


def read_exact(rfile, size, sink):
    while size > 0:
        piece = rfile.read(min(size, 1 << 20))
        if not piece:
            raise ClientGone(b"".join(sink))
        sink.append(piece)
        size -= len(piece)


def read_chunk_header(rfile, sink):
    line = rfile.readline(65537)
    if not line.endswith(b"\n"):
        raise ClientGone(b"".join(sink))
    try:
        return int(line.split(b";", 1)[0].strip() or b"0", 16)
    except ValueError:
        raise ClientGone(b"".join(sink))


def read_body(handler, limit=None):
    """Read the (possibly chunked) request body.  With `limit`: stop after `limit` body bytes (or at
    the end of the body if it is shorter) and return what was read (used by reset-inside)."""
    rfile, headers, sink = handler.rfile, handler.headers, []
    try:
        if "chunked" in headers.get("Transfer-Encoding", "").lower():
            while True:
                size = read_chunk_header(rfile, sink)
                if limit is not None:
                    got = sum(len(piece) for piece in sink)
                    if size == 0 or got + size >= limit:
                        read_exact(rfile, min(size, limit - got), sink)
                        return b"".join(sink)
                if size == 0:
                    while True:           # trailers
                        line = rfile.readline(65537)
                        if line in (b"\r\n", b"\n", b""):
                            break
                    return b"".join(sink)
                read_exact(rfile, size, sink)
                if rfile.read(2) != b"\r\n":
                    raise ClientGone(b"".join(sink))
        else:
            size = int(headers.get("Content-Length") or 0)
            if limit is not None:
                size = min(size, limit)
            read_exact(rfile, size, sink)
            return b"".join(sink)
    except (OSError, ValueError):
        raise ClientGone(b"".join(sink))


def flip_byte(data, offset=None):
    if not data:
        return data
    if offset is None or not 0 <= offset < len(data):
        offset = len(data) // 2
    return data[:offset] + bytes([data[offset] ^ 0xFF]) + data[offset + 1:]


# ---------------------------------------------------------------------------------------------
# Fault rules
# ---------------------------------------------------------------------------------------------

FAULT_KINDS = ("status", "text", "badjson", "nofield", "noheader", "reset-before", "reset-inside", "corrupt",
               "rename-fail", "delay", "async-fail")


class Rule:
    def __init__(self, index, spec):
        if not isinstance(spec, dict) or "fault" not in spec:
            raise ValueError("rule %d: an object with a \"fault\" key is required" % index)
        self.index = index
        self.spec = spec
        kind = str(spec["fault"])
        self.delay_ms = int(spec.get("delay_ms", 0))
        if kind.startswith("delay"):
            if ":" in kind:
                self.delay_ms = int(kind.split(":", 1)[1])
            else:
                self.delay_ms = int(spec.get("ms", self.delay_ms))
            kind = "delay"
        if kind not in FAULT_KINDS:
            raise ValueError("rule %d: unknown fault kind %r" % (index, kind))
        self.kind = kind
        match = {k: spec[k] for k in ("seq", "provider", "endpoint", "method", "nth") if k in spec}
        match.update(spec.get("match") or {})
        self.seq = match.get("seq")
        self.provider = match.get("provider")
        self.endpoint = match.get("endpoint")
        if self.endpoint is None and kind in ("rename-fail", "async-fail"):
            self.endpoint = "rename"
        if self.endpoint is None and kind == "corrupt":
            self.endpoint = "upload-data"
        self.method = match.get("method")
        self.nth = int(match.get("nth", 1))
        self.repeat = bool(spec.get("repeat", False))
        self.count = 0

    def fires(self, req):
        if self.provider is not None and self.provider != req.provider:
            return False
        if self.endpoint is not None and self.endpoint != req.endpoint and self.endpoint not in req.aliases:
            return False
        if self.method is not None and self.method.upper() != req.method:
            return False
        if self.seq is not None:
            return req.seq == int(self.seq)
        self.count += 1
        return self.count >= self.nth if self.repeat else self.count == self.nth

    def describe(self):
        info = {"rule": self.index, "kind": self.kind}
        for key in ("status", "after_bytes", "offset", "apply"):
            if key in self.spec:
                info[key] = self.spec[key]
        return info


def parse_script(data):
    if not isinstance(data, list):
        raise ValueError("the fault script must be a JSON list")
    return [Rule(index, spec) for index, spec in enumerate(data)]


# ---------------------------------------------------------------------------------------------
# The emulator
# ---------------------------------------------------------------------------------------------

PREFIXES = {}
for _p in PROVIDERS:
    PREFIXES["/%s-oauth" % _p] = (_p, "oauth")
    PREFIXES["/%s-api" % _p] = (_p, "api")
PREFIXES["/dropbox-content"] = ("dropbox", "content")
PREFIXES["/yandex-upload"] = ("yandex", "upload")
PREFIXES["/google-upload"] = ("google", "upload")

DROPBOX_RPC = {
    "/files/list_folder": ("list-folder", ("list",)),
    "/files/list_folder/continue": ("list-folder-continue", ("list",)),
    "/files/create_folder_v2": ("create-folder", ("mkdir",)),
    "/files/delete_v2": ("delete", ()),
    "/files/move_v2": ("move", ("rename",)),
}
DROPBOX_CONTENT = {
    "/files/upload_session/start": ("upload-start", ("upload",)),
    "/files/upload_session/append_v2": ("upload-append", ("upload", "upload-data")),
    "/files/upload_session/finish": ("upload-finish", ("upload", "upload-commit")),
}


class Emulator:
    def __init__(self, state_dir, options):
        self.state_dir = state_dir
        self.opt = options
        os.makedirs(state_dir, exist_ok=True)
        self.lock = threading.RLock()         # namespaces, sessions, tokens
        self.meta_lock = threading.Lock()     # seq, rules, log
        self.idle = threading.Condition()
        self.inflight = 0
        self.seq = 0
        self.run_id = "%d-%d" % (int(time.time()), os.getpid())
        self.rules = []
        self.ns = {}
        self.reload()
        self.tokens = {p: set() for p in PROVIDERS}
        self.counter = 0
        self.dbx_sessions = {}
        self.dbx_cursors = {}
        self.ya_uploads = {}
        self.ya_operations = {}
        self.g_sessions = {}
        self.g_page_tokens = {}
        self.log = open(os.path.join(state_dir, "requests.jsonl"), "a")

    # -- infrastructure ----------------------------------------------------------------------
    def reload(self):
        with self.lock:
            self.ns = {p: load_namespace(self.state_dir, p) for p in PROVIDERS}

    def close(self):
        with self.lock:
            for ns in self.ns.values():
                ns.save()
        with self.meta_lock:
            self.log.flush()
            os.fsync(self.log.fileno())
            self.log.close()

    def unique(self, prefix):
        with self.lock:
            self.counter += 1
            return "%s-%d" % (prefix, self.counter)

    def page_size(self, provider):
        return self.opt.page_size or DEFAULT_PAGE[provider]

    def set_script(self, data):
        rules = parse_script(data)
        with self.meta_lock:
            self.rules = rules

    def write_log(self, req, status, delay_ms, received):
        entry = {
            "run": self.run_id, "seq": req.seq, "time": round(time.time(), 3),
            "provider": req.provider, "area": req.area,
            "endpoint": req.endpoint, "upload": "upload" in req.aliases, "method": req.method,
            "path": req.path, "query": req.query,
            "headers": {k: req.headers.get(k) for k in LOGGED_HEADERS if req.headers.get(k) is not None},
            "body_bytes": len(received), "body_sha256": hashlib.sha256(received).hexdigest(),
            "status": status, "fault": req.fault.describe() if req.fault else None,
            "delay_ms": delay_ms,
        }
        ctype = (req.headers.get("content-type") or "").split(";")[0].strip().lower()
        if received and len(received) <= 4096 and ctype in ("application/json", "application/x-www-form-urlencoded"):
            entry["body_text"] = received.decode("utf-8", "replace")
        if req.note:
            entry["note"] = req.note
        with self.meta_lock:
            self.log.write(json.dumps(entry, sort_keys=True) + "\n")
            self.log.flush()
        if self.opt.verbose:
            sys.stderr.write("emu #%s %s %s %s -> %s%s\n" % (
                req.seq, req.provider, req.method, req.target, status,
                " [fault %s]" % req.fault.kind if req.fault else ""))

    # -- request entry point -------------------------------------------------------------------
    def handle(self, handler):
        split = urllib.parse.urlsplit(handler.path)
        if split.path.startswith("/_emu/"):
            return self.handle_control(handler, split.path)
        with self.idle:
            self.inflight += 1
        try:
            self.handle_logged(handler, split)
        finally:
            with self.idle:
                self.inflight -= 1
                self.idle.notify_all()

    def drain(self, timeout):
        """Wait (bounded) until the requests being handled have been answered and logged."""
        deadline = time.time() + timeout
        with self.idle:
            while self.inflight > 0 and time.time() < deadline:
                self.idle.wait(max(0.01, deadline - time.time()))
            return self.inflight == 0

    def handle_logged(self, handler, split):
        req = Request()
        req.method = handler.command.upper()
        req.target = handler.path
        req.path = split.path
        req.query = {k: v[0] for k, v in urllib.parse.parse_qs(split.query, keep_blank_values=True).items()}
        req.headers = {k.lower(): v for k, v in handler.headers.items()}
        req.base_url = "http://" + (req.headers.get("host") or "%s:%d" % handler.server.server_address[:2])
        for prefix, (provider, area) in PREFIXES.items():
            if req.path == prefix or req.path.startswith(prefix + "/"):
                req.provider, req.area, req.rest = provider, area, req.path[len(prefix):]
                break
        self.classify(req)

        delay_ms = 0
        with self.meta_lock:
            self.seq += 1
            req.seq = self.seq
            for rule in self.rules:
                if rule.fires(req):
                    delay_ms += rule.delay_ms
                    if rule.kind != "delay" and req.fault is None:
                        req.fault = rule
        if delay_ms:
            time.sleep(delay_ms / 1000.0)

        kind = req.fault.kind if req.fault else None
        spec = req.fault.spec if req.fault else {}
        received = b""
        status = None
        try:
            if kind == "reset-before":
                req.note = "connection closed by emulator before reading the body"
                self.abort(handler, rst=False)
                return
            if kind == "reset-inside":
                received = read_body(handler, limit=max(0, int(spec.get("after_bytes", 1))))
                req.note = "connection reset by emulator inside the request body"
                self.abort(handler, rst=True)
                return

            received = req.body = read_body(handler)
            response = self.respond(req, kind, spec)
            status = response.status
            self.send(handler, response)
        except ClientGone as gone:
            received = gone.received
            req.note = "client disconnected inside the request body"
            self.client_gone(req)
            handler.close_connection = True
        except (BrokenPipeError, ConnectionResetError):
            req.note = "client disconnected before the response was sent"
            status = None
            handler.close_connection = True
        finally:
            self.write_log(req, status, delay_ms, received)

    def respond(self, req, kind, spec):
        if kind in ("status", "text", "rename-fail"):
            status = int(spec.get("status", 500 if kind == "rename-fail" else 503))
            if kind == "text":
                return text_response(status, str(spec.get("body", "Injected fault.")))
            if "body" in spec:
                body = spec["body"]
                shape = "oauth" if req.area == "oauth" else (req.provider or "oauth")
                if isinstance(body, str):
                    return Response(status, {"Content-Type": JSON_TYPES[shape]}, body.encode("utf-8"))
                return json_response(shape, status, body)
            return self.shaped_error(req, status, spec.get("error"))

        apply = bool(spec.get("apply", True))
        if kind in ("badjson", "noheader", "nofield") and not apply:
            response = json_response("oauth", 200, {})
        else:
            with self.lock:
                try:
                    response = self.dispatch(req)
                except ApiError as err:
                    response = err.response
                except NamespaceError as err:
                    response = text_response(400, "Bad request: %s." % err)
                except Exception as err:      # an emulator bug must be visible, not look like a fault
                    req.note = "EMULATOR BUG: %s: %s" % (type(err).__name__, err)
                    response = text_response(500, "Emulator bug: %s: %s." % (type(err).__name__, err))

        if kind == "badjson":
            status = int(spec.get("status", response.status if 200 <= response.status < 300 and response.status != 204 else 200))
            shape = "oauth" if req.area == "oauth" else (req.provider or "oauth")
            headers = {k: v for k, v in response.headers.items() if k.lower() != "content-type"}
            headers["Content-Type"] = JSON_TYPES[shape]
            response = Response(status, headers, b'{"emulated": "malformed json", ')
        elif kind == "nofield":
            status = int(spec.get("status", response.status if 200 <= response.status < 300 and response.status != 204 else 200))
            shape = "oauth" if req.area == "oauth" else (req.provider or "oauth")
            headers = {k: v for k, v in response.headers.items() if k.lower() != "content-type"}
            headers["Content-Type"] = JSON_TYPES[shape]
            response = Response(status, headers, b'{}')
        elif kind == "noheader":
            drop = "location" if req.endpoint == "session-start" else "content-type"
            response.headers = {k: v for k, v in response.headers.items() if k.lower() != drop}
        return response

    def send(self, handler, response):
        handler.send_response(response.status)
        for name, value in response.headers.items():
            handler.send_header(name, value)
        if response.status != 204:
            handler.send_header("Content-Length", str(len(response.body)))
        handler.send_header("Connection", "close")
        handler.end_headers()
        if response.status != 204 and response.body:
            handler.wfile.write(response.body)
        handler.wfile.flush()
        handler.close_connection = True

    def abort(self, handler, rst):
        handler.close_connection = True
        sock = handler.connection
        try:
            if rst:
                sock.setsockopt(socket.SOL_SOCKET, socket.SO_LINGER, struct.pack("ii", 1, 0))
        except OSError:
            pass
        # The makefile() objects hold references to the socket: close them too, so that the
        # descriptor is really closed here (=> RST with SO_LINGER 0) and not by the server loop.
        for stream in (handler.wfile, handler.rfile):
            try:
                stream.close()
            except OSError:
                pass
        try:
            sock.close()
        except OSError:
            pass
        handler.wfile = io.BytesIO()     # http.server flushes wfile once more after the handler returns

    def handle_control(self, handler, path):
        body = read_body(handler)
        try:
            if path == "/_emu/ping":
                result = {"ok": True, "seq": self.seq}
            elif path == "/_emu/script":
                self.set_script(json.loads(body.decode("utf-8") or "[]"))
                result = {"ok": True, "seq": self.seq, "rules": len(self.rules)}
            elif path == "/_emu/reload":
                self.reload()
                result = {"ok": True, "seq": self.seq}
            else:
                return self.send(handler, text_response(404, "Unknown control endpoint."))
        except (ValueError, NamespaceError) as err:
            return self.send(handler, text_response(400, "Error: %s." % err))
        self.send(handler, json_response("oauth", 200, result))

    def client_gone(self, req):
        """An upload connection died while the body was being received."""
        with self.lock:
            if req.provider == "yandex" and req.area == "upload":
                upload = self.ya_uploads.get(req.rest.rsplit("/", 1)[-1])
                if upload is not None and not upload["done"]:
                    self.ya_operations[upload["operation"]]["status"] = "failed"

    # -- classification ----------------------------------------------------------------------
    def classify(self, req):
        endpoint, aliases = "unknown", ()
        method, rest = req.method, req.rest
        if req.area == "oauth":
            if rest == "/token":
                endpoint = "token"
        elif req.provider == "dropbox" and req.area == "api":
            endpoint, aliases = DROPBOX_RPC.get(rest, ("unknown", ()))
        elif req.provider == "dropbox" and req.area == "content":
            endpoint, aliases = DROPBOX_CONTENT.get(rest, ("unknown", ()))
        elif req.provider == "yandex" and req.area == "api":
            if rest == "/resources":
                if method == "GET":
                    fields = req.query.get("fields")
                    endpoint = "stat" if fields and "_embedded" not in fields else "list"
                elif method == "PUT":
                    endpoint = "mkdir"
                elif method == "DELETE":
                    endpoint = "delete"
            elif rest == "/resources/move":
                endpoint, aliases = "move", ("rename",)
            elif rest == "/resources/upload":
                endpoint, aliases = "upload-url", ("upload", "upload-start")
            elif rest.startswith("/operations/"):
                endpoint = "operation"
        elif req.provider == "yandex" and req.area == "upload":
            endpoint, aliases = "upload-put", ("upload", "upload-data")
        elif req.provider == "google" and req.area == "api":
            if rest == "/files":
                endpoint = "list"
            elif rest.startswith("/files/"):
                endpoint, aliases = {"GET": ("get-file", ("stat",)), "DELETE": ("delete", ()),
                                     "PATCH": ("patch", ("rename",))}.get(method, ("unknown", ()))
        elif req.provider == "google" and req.area == "upload":
            if rest == "/files" or rest.startswith("/files/"):
                if "upload_id" in req.query:
                    endpoint, aliases = "session-put", ("upload", "upload-data")
                else:
                    endpoint, aliases = "session-start", ("upload", "upload-start")
        req.endpoint, req.aliases = endpoint, aliases

    def dispatch(self, req):
        if req.provider is None:
            return text_response(404, "Unknown URL prefix.")
        if req.area == "oauth":
            return self.oauth_token(req)
        return getattr(self, req.provider + "_dispatch")(req)

    # -- provider-shaped errors --------------------------------------------------------------
    def shaped_error(self, req, status, tag=None):
        if req.area == "oauth" or req.provider is None:
            return json_response("oauth", status, {
                "error": tag or "temporarily_unavailable",
                "error_description": "Injected fault: HTTP %d" % status})
        if req.provider == "dropbox":
            return self.dropbox_error(status, tag or "injected_fault")
        if req.provider == "yandex":
            return self.yandex_error(status, tag or "InjectedFaultError", "Injected fault: HTTP %d." % status)
        return self.google_error(status, tag or "Injected fault: HTTP %d." % status, "backendError")

    @staticmethod
    def dropbox_error(status, summary, error=None):
        if error is None:
            error = {".tag": summary.split("/")[0]}
        return json_response("dropbox", status, {"error_summary": summary + "/...", "error": error})

    @staticmethod
    def yandex_error(status, name, message, description=None):
        return json_response("yandex", status, {
            "error": name, "message": message, "description": description or message})

    @staticmethod
    def google_error(status, message, reason, **extra):
        item = {"domain": "global", "reason": reason, "message": message}
        item.update(extra)
        return json_response("google", status, {
            "error": {"code": status, "message": message, "errors": [item]}})

    # -- OAuth ---------------------------------------------------------------------------------
    def oauth_token(self, req):
        def fail(code, description):
            return json_response("oauth", 400, {"error": code, "error_description": description})

        if req.rest != "/token":
            return text_response(404, "Not found.")
        if req.method != "POST":
            return text_response(405, "Method not allowed.")
        ctype = (req.header("content-type") or "").split(";")[0].strip().lower()
        if ctype != "application/x-www-form-urlencoded":
            return fail("invalid_request", "The request must be application/x-www-form-urlencoded")
        form = {k: v[0] for k, v in urllib.parse.parse_qs(
            req.body.decode("utf-8", "replace"), keep_blank_values=True).items()}
        if form.get("grant_type") != "refresh_token":
            return fail("unsupported_grant_type", "Only grant_type=refresh_token is emulated")
        for key in ("client_id", "client_secret", "refresh_token"):
            if not form.get(key):
                return fail("invalid_request", "Missing %s" % key)
        token = self.unique("emu-%s-token" % req.provider)
        self.tokens[req.provider].add(token)
        return json_response("oauth", 200, {
            "access_token": token, "token_type": "bearer", "expires_in": self.opt.token_ttl})

    def authorized(self, req, scheme):
        if self.opt.no_auth:
            return True
        value = req.header("authorization") or ""
        parts = value.split(" ", 1)
        return len(parts) == 2 and parts[0] == scheme and parts[1] in self.tokens[req.provider]

    # =========================================================================================
    # Dropbox
    # =========================================================================================
    def dropbox_dispatch(self, req):
        route = req.rest.lstrip("/")
        if req.endpoint == "unknown":
            return text_response(404, "Unknown API function: \"%s\"" % route)
        if req.method != "POST":
            return text_response(405, "Error in call to API function \"%s\": Method not allowed" % route)
        if not self.authorized(req, "Bearer"):
            return self.dropbox_error(401, "invalid_access_token")
        ctype = (req.header("content-type") or "").split(";")[0].strip().lower()

        if req.area == "api":
            if ctype != "application/json":
                return text_response(400, "Error in call to API function \"%s\": Bad HTTP \"Content-Type\" "
                                          "header: \"%s\".  Expecting one of \"application/json\", ..." % (route, ctype))
            try:
                args = json.loads(req.body.decode("utf-8"))
                if not isinstance(args, dict):
                    raise ValueError("not an object")
            except ValueError:
                return text_response(400, "Error in call to API function \"%s\": request body: "
                                          "could not decode input as JSON" % route)
        else:
            if ctype != "application/octet-stream":
                return text_response(400, "Error in call to API function \"%s\": Bad HTTP \"Content-Type\" "
                                          "header: \"%s\".  Expecting one of \"application/octet-stream\", ..." % (route, ctype))
            try:
                args = json.loads(req.header("dropbox-api-arg") or "")
                if args is None:
                    args = {}
                if not isinstance(args, dict):
                    raise ValueError("not an object")
            except ValueError:
                return text_response(400, "Error in call to API function \"%s\": HTTP header "
                                          "\"Dropbox-API-Arg\": could not decode input as JSON" % route)
        try:
            return getattr(self, "dbx_" + req.endpoint.replace("-", "_"))(req, args)
        except KeyError as err:
            return text_response(400, "Error in call to API function \"%s\": request body: "
                                      "missing required field %s" % (route, err))

    def dbx_path(self, req, path, root_ok=False):
        route = req.rest.lstrip("/")
        if not isinstance(path, str):
            raise ApiError(text_response(400, "Error in call to API function \"%s\": request body: "
                                              "path: expected string" % route))
        if path == "":
            if root_ok:
                return path
            raise ApiError(text_response(400, "Error in call to API function \"%s\": request body: "
                                              "path: The root folder is unsupported." % route))
        if path == "/":
            raise ApiError(text_response(400, "Error in call to API function \"%s\": request body: path: "
                                              "Specify the root folder as an empty string rather than as \"/\"." % route))
        if not path.startswith("/") or path.endswith("/") or "//" in path:
            raise ApiError(text_response(400, "Error in call to API function \"%s\": request body: path: "
                                              "'%s' did not match pattern" % (route, path)))
        return path

    def dbx_meta(self, node, display, tagged=True):
        meta = {"name": node["name"], "path_lower": display.lower(), "path_display": display,
                "id": "id:" + node["id"]}
        if tagged:
            meta[".tag"] = "folder" if node["type"] == "dir" else "file"
        if node["type"] == "file":
            meta.update({"client_modified": node["modified"], "server_modified": node["modified"],
                         "rev": "0" + node["id"], "size": node["size"], "is_downloadable": True,
                         "content_hash": node["content_hash"]})
        return meta

    def dbx_page(self, entries):
        size = self.page_size("dropbox")
        page, rest = entries[:size], entries[size:]
        cursor = self.unique("emu-cursor")
        if rest:
            self.dbx_cursors[cursor] = rest
        return json_response("dropbox", 200, {"entries": page, "cursor": cursor, "has_more": bool(rest)})

    def dbx_list_folder(self, req, args):
        path = self.dbx_path(req, args["path"], root_ok=True)
        ns = self.ns["dropbox"]
        node, _, display = ns.resolve(path)
        if node is None:
            return self.dropbox_error(409, "path/not_found", {".tag": "path", "path": {".tag": "not_found"}})
        if node["type"] != "dir":
            return self.dropbox_error(409, "path/not_folder", {".tag": "path", "path": {".tag": "not_folder"}})
        base = "" if display == "/" else display
        entries = [self.dbx_meta(child, base + "/" + child["name"]) for child in node["children"]]
        return self.dbx_page(entries)

    def dbx_list_folder_continue(self, req, args):
        rest = self.dbx_cursors.pop(args["cursor"], None)
        if rest is None:
            return self.dropbox_error(409, "reset", {".tag": "reset"})
        return self.dbx_page(rest)

    def dbx_create_folder(self, req, args):
        path = self.dbx_path(req, args["path"])
        ns = self.ns["dropbox"]
        node = ns.lookup(path)
        if node is not None:
            kind = "folder" if node["type"] == "dir" else "file"
            return self.dropbox_error(409, "path/conflict/" + kind, {
                ".tag": "path", "path": {".tag": "conflict", "conflict": {".tag": kind}}})
        try:
            ns.mkdir(path, parents=True, exist_ok=False)      # Dropbox creates missing parents
        except NamespaceError:
            return self.dropbox_error(409, "path/conflict/file_ancestor", {
                ".tag": "path", "path": {".tag": "conflict", "conflict": {".tag": "file_ancestor"}}})
        ns.save()
        node, _, display = ns.resolve(path)
        return json_response("dropbox", 200, {"metadata": self.dbx_meta(node, display, tagged=False)})

    def dbx_delete(self, req, args):
        path = self.dbx_path(req, args["path"])
        ns = self.ns["dropbox"]
        node, parent, display = ns.resolve(path)
        if node is None:
            return self.dropbox_error(409, "path_lookup/not_found", {
                ".tag": "path_lookup", "path_lookup": {".tag": "not_found"}})
        meta = self.dbx_meta(node, display)
        ns.remove_node(node, parent)
        ns.save()
        return json_response("dropbox", 200, {"metadata": meta})

    def dbx_move(self, req, args):
        src = self.dbx_path(req, args["from_path"])
        dst = self.dbx_path(req, args["to_path"])
        ns = self.ns["dropbox"]
        node, parent, _ = ns.resolve(src)
        if node is None:
            return self.dropbox_error(409, "from_lookup/not_found", {
                ".tag": "from_lookup", "from_lookup": {".tag": "not_found"}})
        if dst.lower() == src.lower() or dst.lower().startswith(src.lower() + "/"):
            return self.dropbox_error(409, "duplicated_or_nested_paths", {".tag": "duplicated_or_nested_paths"})
        existing = ns.lookup(dst)
        if existing is not None:
            kind = "folder" if existing["type"] == "dir" else "file"
            return self.dropbox_error(409, "to/conflict/" + kind, {
                ".tag": "to", "to": {".tag": "conflict", "conflict": {".tag": kind}}})
        parts = ns.split(dst)
        try:
            new_parent = ns.mkdir("/" + "/".join(parts[:-1])) if parts[:-1] else ns.root
        except NamespaceError:
            return self.dropbox_error(409, "to/conflict/file_ancestor", {
                ".tag": "to", "to": {".tag": "conflict", "conflict": {".tag": "file_ancestor"}}})
        ns.detach(node, parent)
        node["name"] = parts[-1]
        new_parent["children"].append(node)
        ns.save()
        node, _, display = ns.resolve(dst)
        return json_response("dropbox", 200, {"metadata": self.dbx_meta(node, display)})

    def dbx_session(self, args):
        cursor = args["cursor"]
        session_id, offset = cursor["session_id"], cursor["offset"]
        session = self.dbx_sessions.get(session_id)
        if session is None:
            raise ApiError(self.dropbox_error(409, "lookup_failed/not_found", {
                ".tag": "lookup_failed", "lookup_failed": {".tag": "not_found"}}))
        if session["closed"]:
            raise ApiError(self.dropbox_error(409, "lookup_failed/closed", {
                ".tag": "lookup_failed", "lookup_failed": {".tag": "closed"}}))
        size = sum(len(p) for p in session["parts"])
        if offset != size:
            raise ApiError(self.dropbox_error(409, "lookup_failed/incorrect_offset", {
                ".tag": "lookup_failed",
                "lookup_failed": {".tag": "incorrect_offset", "correct_offset": size}}))
        return session_id, session

    def dbx_take(self, req):
        data = req.body
        if data and req.want_corrupt():
            data = flip_byte(data, req.fault.spec.get("offset"))
            req.corrupt_done = True
            req.note = "stored content corrupted by emulator"
        return data

    def dbx_upload_start(self, req, args):
        session_id = self.unique("emu-session")
        self.dbx_sessions[session_id] = {"parts": [self.dbx_take(req)], "closed": bool(args.get("close"))}
        return json_response("dropbox", 200, {"session_id": session_id})

    def dbx_upload_append(self, req, args):
        _, session = self.dbx_session(args)
        session["parts"].append(self.dbx_take(req))
        if args.get("close"):
            session["closed"] = True
        return json_response("dropbox", 200, None)          # the real API answers `null`

    def dbx_upload_finish(self, req, args):
        commit = args["commit"]
        path = self.dbx_path(req, commit["path"])
        mode = commit.get("mode", "add")
        if isinstance(mode, dict):
            mode = mode.get(".tag")
        session_id, session = self.dbx_session(args)
        session["parts"].append(self.dbx_take(req))
        data = b"".join(session["parts"])
        if req.want_corrupt():
            data = flip_byte(data, req.fault.spec.get("offset"))
            req.corrupt_done = True
            req.note = "stored content corrupted by emulator"

        def write_failed(kind):
            # UploadSessionFinishError.path is an UploadWriteFailed struct (no .tag of its own)
            return self.dropbox_error(409, "path/conflict/" + kind, {".tag": "path", "path": {
                "reason": {".tag": "conflict", "conflict": {".tag": kind}},
                "upload_session_id": session_id}})

        ns = self.ns["dropbox"]
        existing = ns.lookup(path)
        if existing is not None and existing["type"] == "dir":
            return write_failed("folder")
        if existing is not None and mode != "overwrite":
            return write_failed("file")
        try:
            node = ns.put_file(path, data, parents=True)     # Dropbox creates missing parents
        except NamespaceError:
            return write_failed("file_ancestor")
        del self.dbx_sessions[session_id]
        ns.save()
        node, _, display = ns.resolve(path)
        return json_response("dropbox", 200, self.dbx_meta(node, display, tagged=False))

    # =========================================================================================
    # Yandex Disk
    # =========================================================================================
    def yandex_dispatch(self, req):
        if req.area == "upload":
            return self.ya_upload_put(req)
        if req.endpoint == "unknown":
            return self.yandex_error(404, "NotFoundError", "Ресурс не найден.", "Not Found")
        if not self.authorized(req, "OAuth"):
            return self.yandex_error(401, "UnauthorizedError", "Не авторизован.", "Unauthorized")
        expected = {"list": "GET", "stat": "GET", "mkdir": "PUT", "delete": "DELETE", "move": "POST",
                    "upload-url": "GET", "operation": "GET"}[req.endpoint]
        if req.method != expected:
            return self.yandex_error(405, "MethodNotAllowedError", "Метод не поддерживается.", "Method Not Allowed")
        return getattr(self, "ya_" + req.endpoint.replace("-", "_"))(req)

    def ya_path(self, req, name="path"):
        value = req.query.get(name)
        if not value:
            raise ApiError(self.yandex_error(400, "FieldValidationError",
                                             "Ошибка проверки поля \"%s\": Это поле является обязательным." % name,
                                             "Error validating field \"%s\": This field is required." % name))
        if value.startswith("disk:"):
            value = value[len("disk:"):]
        elif ":" in value.split("/")[0]:
            raise ApiError(self.yandex_error(400, "FieldValidationError", "Ошибка проверки поля \"%s\"." % name,
                                             "Only the disk: area is emulated."))
        if not value.startswith("/"):
            value = "/" + value
        value = "/" + value.strip("/")
        try:
            Namespace.split(value)
        except NamespaceError:
            raise ApiError(self.yandex_error(400, "FieldValidationError", "Ошибка проверки поля \"%s\"." % name,
                                             "Invalid path."))
        return value

    def ya_bool(self, req, name, default=False):
        value = req.query.get(name)
        if value is None:
            return default
        return value.lower() in ("true", "1", "yes")

    def ya_int(self, req, name, default):
        try:
            value = int(req.query.get(name, default))
            if value < 0:
                raise ValueError
            return value
        except ValueError:
            raise ApiError(self.yandex_error(400, "FieldValidationError", "Ошибка проверки поля \"%s\"." % name,
                                             "Error validating field \"%s\"." % name))

    def ya_not_found(self):
        return self.yandex_error(404, "DiskNotFoundError", "Не удалось найти запрошенный ресурс.", "Resource not found.")

    def ya_resource(self, node, path):
        res = {"name": node["name"] or "disk", "path": "disk:" + path, "resource_id": "emu:" + node["id"],
               "created": node.get("modified", iso_now()), "modified": node.get("modified", iso_now()),
               "type": "dir" if node["type"] == "dir" else "file"}
        if node["type"] == "file":
            res.update({"size": node["size"], "md5": node["md5"], "sha256": node["sha256"],
                        "mime_type": node.get("mime", "application/octet-stream")})
        return res

    @staticmethod
    def project(obj, tree):
        if not tree:
            return obj
        if isinstance(obj, list):
            return [Emulator.project(item, tree) for item in obj]
        if isinstance(obj, dict):
            return {k: Emulator.project(v, tree[k]) for k, v in obj.items() if k in tree}
        return obj

    def ya_link(self, req, path):
        return {"href": "%s/yandex-api/resources?path=%s" % (req.base_url, urllib.parse.quote("disk:" + path, safe="")),
                "method": "GET", "templated": False}

    def ya_get(self, req):
        path = self.ya_path(req)
        ns = self.ns["yandex"]
        node, _, display = ns.resolve(path)
        if node is None:
            return self.ya_not_found()
        res = self.ya_resource(node, display)
        if node["type"] == "dir":
            offset = self.ya_int(req, "offset", 0)
            limit = self.ya_int(req, "limit", self.page_size("yandex"))
            base = "" if display == "/" else display
            children = node["children"]
            res["_embedded"] = {
                "sort": "", "path": "disk:" + display, "limit": limit, "offset": offset, "total": len(children),
                "items": [self.ya_resource(c, base + "/" + c["name"]) for c in children[offset:offset + limit]]}
        fields = req.query.get("fields")
        if fields:
            tree = {}
            for field in fields.split(","):
                level = tree
                for part in field.strip().split("."):
                    if part:
                        level = level.setdefault(part, {})
            res = self.project(res, tree)
        return json_response("yandex", 200, res)

    ya_list = ya_get
    ya_stat = ya_get

    def ya_parent(self, ns, path):
        parts = ns.split(path)
        if not parts:
            return None, None
        parent = ns.lookup("/" + "/".join(parts[:-1]))
        if parent is None or parent["type"] != "dir":
            raise ApiError(self.yandex_error(
                409, "DiskPathDoesntExistsError", "Указанного пути \"%s\" не существует." % path,
                "Specified path \"%s\" doesn't exists." % path))
        return parent, parts[-1]

    def ya_mkdir(self, req):
        path = self.ya_path(req)
        ns = self.ns["yandex"]
        if ns.lookup(path) is not None:
            return self.yandex_error(409, "DiskPathPointsToExistentDirectoryError",
                                     "По указанному пути \"%s\" уже существует папка с таким именем." % path,
                                     "Specified path \"%s\" points to existent directory." % path)
        parent, name = self.ya_parent(ns, path)
        ns.new_dir(parent, name)
        ns.save()
        return json_response("yandex", 201, self.ya_link(req, path))

    def ya_operation_new(self, status="success"):
        op_id = self.unique("emu-operation")
        self.ya_operations[op_id] = {"status": status, "polls": self.opt.op_polls}
        return op_id

    def ya_accepted(self, req, op_id):
        return json_response("yandex", 202, {
            "href": "%s/yandex-api/operations/%s" % (req.base_url, op_id), "method": "GET", "templated": False})

    def ya_is_async(self, node):
        return self.opt.yandex_async == "always" or (node["type"] == "dir" and bool(node["children"]))

    def ya_delete(self, req):
        path = self.ya_path(req)
        ns = self.ns["yandex"]
        node, parent, _ = ns.resolve(path)
        if node is None or parent is None:
            return self.ya_not_found()
        asynchronous = self.ya_is_async(node)
        ns.remove_node(node, parent)
        ns.save()
        if asynchronous:
            return self.ya_accepted(req, self.ya_operation_new())
        return Response(204)

    def ya_move(self, req):
        src = self.ya_path(req, "from")
        dst = self.ya_path(req, "path")
        overwrite = self.ya_bool(req, "overwrite", False)
        ns = self.ns["yandex"]
        node, parent, _ = ns.resolve(src)
        if node is None or parent is None:
            return self.ya_not_found()
        if dst == src or dst.startswith(src + "/"):
            return self.yandex_error(409, "DiskMoveSameResourceError" if dst == src else "DiskMoveIntoSelfError",
                                     "Невозможно переместить ресурс.", "Unable to move the resource.")
        new_parent, name = self.ya_parent(ns, dst)
        existing, existing_parent, _ = ns.resolve(dst)
        if existing is not None:
            if not overwrite:
                return self.yandex_error(409, "DiskResourceAlreadyExistsError",
                                         "Ресурс \"%s\" уже существует." % dst, "Resource \"%s\" already exists." % dst)
            ns.remove_node(existing, existing_parent)
        if req.fault is not None and req.fault.kind == "async-fail":
            # the move is accepted as an asynchronous operation, which then fails: nothing is moved
            req.note = "asynchronous move accepted, its operation ends as failed"
            return self.ya_accepted(req, self.ya_operation_new("failed"))
        asynchronous = self.ya_is_async(node)
        ns.detach(node, parent)
        node["name"] = name
        new_parent["children"].append(node)
        ns.save()
        if asynchronous:
            return self.ya_accepted(req, self.ya_operation_new())
        return json_response("yandex", 201, self.ya_link(req, dst))

    def ya_upload_url(self, req):
        path = self.ya_path(req)
        overwrite = self.ya_bool(req, "overwrite", False)
        ns = self.ns["yandex"]
        parent, name = self.ya_parent(ns, path)
        if parent is None:
            return self.yandex_error(409, "DiskPathPointsToExistentDirectoryError",
                                     "По указанному пути уже существует папка.", "Specified path points to existent directory.")
        existing = ns.lookup(path)
        if existing is not None and existing["type"] == "dir":
            return self.yandex_error(409, "DiskPathPointsToExistentDirectoryError",
                                     "По указанному пути \"%s\" уже существует папка с таким именем." % path,
                                     "Specified path \"%s\" points to existent directory." % path)
        if existing is not None and not overwrite:
            return self.yandex_error(409, "DiskResourceAlreadyExistsError",
                                     "Ресурс \"%s\" уже существует." % path, "Resource \"%s\" already exists." % path)
        op_id = self.ya_operation_new("in-progress")
        token = self.unique("emu-upload")
        self.ya_uploads[token] = {"path": path, "operation": op_id, "done": False}
        return json_response("yandex", 200, {
            "operation_id": op_id, "href": "%s/yandex-upload/upload-target/%s" % (req.base_url, token),
            "method": "PUT", "templated": False})

    def ya_upload_put(self, req):
        upload = self.ya_uploads.get(req.rest.rsplit("/", 1)[-1])
        if upload is None or upload["done"]:
            return text_response(404, "Upload target not found.")
        if req.method != "PUT":
            return text_response(405, "Method not allowed.")
        ns = self.ns["yandex"]
        operation = self.ya_operations[upload["operation"]]
        data = req.body
        if req.want_corrupt():
            data = flip_byte(data, req.fault.spec.get("offset"))
            req.corrupt_done = True
            req.note = "stored content corrupted by emulator"
        upload["done"] = True
        try:
            ns.put_file(upload["path"], data, parents=False)
        except NamespaceError:
            operation["status"] = "failed"
            return Response(201, {}, b"")       # the failure is reported by the operation
        ns.save()
        operation["status"] = "success"
        return Response(201, {}, b"")

    def ya_operation(self, req):
        operation = self.ya_operations.get(req.rest[len("/operations/"):])
        if operation is None:
            return self.yandex_error(404, "DiskOperationNotFoundError",
                                     "Не удалось найти запрошенную операцию.", "Operation not found.")
        status = operation["status"]
        if status == "success" and operation["polls"] > 0:
            operation["polls"] -= 1
            status = "in-progress"
        return json_response("yandex", 200, {"status": status})

    # =========================================================================================
    # Google Drive
    # =========================================================================================
    def google_dispatch(self, req):
        if req.endpoint == "unknown":
            return self.google_error(404, "Not Found", "notFound")
        if req.endpoint == "session-put":
            return self.g_session_put(req)          # the session URI is the credential
        if not self.authorized(req, "Bearer"):
            return self.google_error(401, "Invalid Credentials", "authError",
                                     location="Authorization", locationType="header")
        if req.endpoint == "list" and req.method != "GET":
            return self.google_error(404, "Not Found", "notFound")
        return getattr(self, "g_" + req.endpoint.replace("-", "_"))(req)

    def g_file_not_found(self, ident):
        return self.google_error(404, "File not found: %s." % ident, "notFound",
                                 location="fileId", locationType="parameter")

    def g_find(self, ident):
        ns = self.ns["google"]
        if ident == "root":
            return ns.root, None
        node, parent, _ = ns.find_id(ident)
        return node, parent

    def g_mime(self, node):
        return FOLDER_MIME if node["type"] == "dir" else node.get("mime", "application/octet-stream")

    def g_resource(self, node, parent, fields=None):
        full = {"kind": "drive#file", "id": node["id"], "name": node["name"] or "My Drive",
                "mimeType": self.g_mime(node), "trashed": False,
                "parents": [parent["id"]] if parent is not None else [],
                "modifiedTime": node.get("modified", iso_now()), "createdTime": node.get("modified", iso_now())}
        if node["type"] == "file":
            full.update({"size": str(node["size"]), "md5Checksum": node["md5"], "sha256Checksum": node["sha256"]})
        if parent is None:
            del full["parents"]
        if not fields:
            names = ("kind", "id", "name", "mimeType")
        elif fields.strip() == "*":
            names = tuple(full)
        else:
            names = tuple(f.strip() for f in fields.split(","))
        return {k: full[k] for k in names if k in full}

    def g_get_file(self, req):
        ident = req.rest[len("/files/"):]
        node, parent = self.g_find(ident)
        if node is None:
            return self.g_file_not_found(ident)
        return json_response("google", 200, self.g_resource(node, parent, req.query.get("fields")))

    Q_TERM = re.compile(
        r"""^\s*(?:
            '(?P<parent>(?:[^'\\]|\\.)*)'\s+in\s+parents |
            trashed\s*(?P<trashed_op>=|!=)\s*(?P<trashed>true|false) |
            (?P<key>name|mimeType)\s*(?P<op>=|!=|contains)\s*'(?P<value>(?:[^'\\]|\\.)*)'
        )\s*$""", re.X)

    def g_parse_query(self, query):
        invalid = ApiError(self.google_error(400, "Invalid Value", "invalid", location="q", locationType="parameter"))
        tests = []
        for term in re.split(r"\s+and\s+", query.strip()):
            match = self.Q_TERM.match(term)
            if match is None:
                raise invalid
            if match.group("parent") is not None:
                ident = re.sub(r"\\(.)", r"\1", match.group("parent"))
                if ident == "root":
                    ident = self.ns["google"].root["id"]
                tests.append(lambda node, parent, ident=ident: parent is not None and parent["id"] == ident)
            elif match.group("trashed") is not None:
                wanted = (match.group("trashed") == "true") == (match.group("trashed_op") == "=")
                tests.append(lambda node, parent, wanted=wanted: wanted is False)   # nothing is ever trashed
            else:
                key, op = match.group("key"), match.group("op")
                value = re.sub(r"\\(.)", r"\1", match.group("value"))

                def test(node, parent, key=key, op=op, value=value):
                    actual = node["name"] if key == "name" else self.g_mime(node)
                    if op == "=":
                        return actual == value
                    if op == "!=":
                        return actual != value
                    return value in actual
                tests.append(test)
        return tests

    def g_list(self, req):
        ns = self.ns["google"]
        token = req.query.get("pageToken")
        if token is not None:
            matches = self.g_page_tokens.pop(token, None)
            if matches is None:
                return self.google_error(400, "Invalid Value", "invalid", location="pageToken", locationType="parameter")
        else:
            tests = self.g_parse_query(req.query["q"]) if req.query.get("q") else []
            matches = []
            stack = [(ns.root, None)]
            while stack:
                node, parent = stack.pop(0)
                if parent is not None and all(test(node, parent) for test in tests):
                    matches.append((node, parent))
                if node["type"] == "dir":
                    stack.extend((child, node) for child in node["children"])
        try:
            size = int(req.query.get("pageSize", self.page_size("google")))
            if not 1 <= size <= 1000:
                raise ValueError
        except ValueError:
            return self.google_error(400, "Invalid Value", "invalid", location="pageSize", locationType="parameter")
        page, rest = matches[:size], matches[size:]
        fields = req.query.get("fields")
        file_fields = None
        if fields:
            inner = re.search(r"files\(([^)]*)\)", fields)
            file_fields = inner.group(1) if inner else ("*" if fields.strip() == "*" or "files" in fields else None)
        result = {"kind": "drive#fileList", "incompleteSearch": False,
                  "files": [self.g_resource(node, parent, file_fields) for node, parent in page]}
        if rest:
            next_token = self.unique("emu-page")
            self.g_page_tokens[next_token] = rest
            result["nextPageToken"] = next_token
        return json_response("google", 200, result)

    def g_delete(self, req):
        ident = req.rest[len("/files/"):]
        node, parent = self.g_find(ident)
        if node is None:
            return self.g_file_not_found(ident)
        if parent is None:
            return self.google_error(403, "The root folder cannot be deleted.", "forbidden")
        ns = self.ns["google"]
        ns.remove_node(node, parent)
        ns.save()
        return Response(204)

    def g_json_body(self, req):
        if not req.body:
            return {}
        try:
            data = json.loads(req.body.decode("utf-8"))
            if not isinstance(data, dict):
                raise ValueError
            return data
        except ValueError:
            raise ApiError(self.google_error(400, "Parse Error", "parseError"))

    def g_patch(self, req):
        ident = req.rest[len("/files/"):]
        node, parent = self.g_find(ident)
        if node is None:
            return self.g_file_not_found(ident)
        meta = self.g_json_body(req)
        ns = self.ns["google"]
        if parent is None and ("name" in meta or req.query.get("addParents")):
            return self.google_error(403, "The root folder cannot be modified.", "forbidden")
        if "name" in meta:
            node["name"] = str(meta["name"])
        if "mimeType" in meta and node["type"] == "file":
            node["mime"] = str(meta["mimeType"])
        target = req.query.get("addParents")
        if target:
            new_parent, _ = self.g_find(target)
            if new_parent is None or new_parent["type"] != "dir":
                return self.g_file_not_found(target)
            ns.detach(node, parent)
            new_parent["children"].append(node)
            parent = new_parent
        ns.save()
        return json_response("google", 200, self.g_resource(node, parent, req.query.get("fields")))

    def g_session_start(self, req):
        if req.query.get("uploadType") != "resumable":
            return self.google_error(400, "Only uploadType=resumable is emulated.", "badRequest")
        meta = self.g_json_body(req)
        suffix = req.rest[len("/files"):]
        if suffix in ("", "/"):
            if req.method != "POST":
                return self.google_error(404, "Not Found", "notFound")
            parents = meta.get("parents") or ["root"]
            parent, _ = self.g_find(parents[0])
            if parent is None or parent["type"] != "dir":
                return self.g_file_not_found(parents[0])
            session = {"mode": "create", "parent": parent["id"], "name": str(meta.get("name", "Untitled")),
                       "mime": meta.get("mimeType")}
        else:
            if req.method not in ("PATCH", "PUT"):
                return self.google_error(404, "Not Found", "notFound")
            ident = suffix.lstrip("/")
            node, parent = self.g_find(ident)
            if node is None:
                return self.g_file_not_found(ident)
            session = {"mode": "update", "file": node["id"], "name": meta.get("name"), "mime": meta.get("mimeType")}
        session_id = self.unique("emu-upload-session")
        self.g_sessions[session_id] = session
        location = "%s/google-upload%s?uploadType=resumable&upload_id=%s" % (req.base_url, req.rest, session_id)
        return Response(200, {"Location": location, "X-GUploader-UploadID": session_id,
                              "Content-Type": "text/html; charset=UTF-8"}, b"")

    def g_session_put(self, req):
        session_id = req.query.get("upload_id")
        session = self.g_sessions.get(session_id)
        if session is None:
            return self.google_error(404, "Upload session not found.", "notFound")
        if req.method != "PUT":
            return self.google_error(400, "Bad Request", "badRequest")
        ns = self.ns["google"]
        data = req.body
        if data and req.want_corrupt():
            data = flip_byte(data, req.fault.spec.get("offset"))
            req.corrupt_done = True
            req.note = "stored content corrupted by emulator"
        body_mime = (req.header("content-type") or "application/octet-stream").split(";")[0].strip()
        if session["mode"] == "create":
            parent, _ = self.g_find(session["parent"])
            if parent is None:
                return self.g_file_not_found(session["parent"])
            mime = session["mime"] or body_mime
            if mime == FOLDER_MIME:
                node = ns.new_dir(parent, session["name"])
            else:
                node = ns.new_file(parent, session["name"], data, mime)    # duplicates are allowed
        else:
            node, parent = self.g_find(session["file"])
            if node is None:
                return self.g_file_not_found(session["file"])
            if session["name"] is not None and parent is not None:
                node["name"] = str(session["name"])
            if node["type"] == "file":
                ns.set_content(node, data, session["mime"] or node.get("mime") or body_mime)
        del self.g_sessions[session_id]
        ns.save()
        return json_response("google", 200, self.g_resource(node, parent))


# ---------------------------------------------------------------------------------------------
# Server
# ---------------------------------------------------------------------------------------------

class Handler(BaseHTTPRequestHandler):
    protocol_version = "HTTP/1.1"
    server_version = "vsb-provider-emu/1"
    sys_version = ""
    timeout = 300

    def do_ANY(self):
        self.server.emulator.handle(self)

    do_GET = do_POST = do_PUT = do_DELETE = do_PATCH = do_HEAD = do_ANY

    def log_message(self, fmt, *args):
        pass


class Server(ThreadingHTTPServer):
    daemon_threads = True
    allow_reuse_address = True
    request_queue_size = 64

    def handle_error(self, request, client_address):
        if self.emulator.opt.verbose:
            ThreadingHTTPServer.handle_error(self, request, client_address)


def serve(args):
    emulator = Emulator(args.state, args)
    if args.script:
        with open(args.script) as src:
            emulator.set_script(json.load(src))
    server = Server((args.bind, args.port), Handler)
    server.emulator = emulator

    stop = threading.Event()
    for signum in (signal.SIGTERM, signal.SIGINT):
        signal.signal(signum, lambda *_: stop.set())

    thread = threading.Thread(target=server.serve_forever, kwargs={"poll_interval": 0.05}, daemon=True)
    thread.start()
    sys.stdout.write("PORT %d\n" % server.server_address[1])
    sys.stdout.flush()

    while not stop.wait(1.0):
        pass
    server.shutdown()             # stop accepting; requests in flight get --drain seconds to finish
    emulator.drain(args.drain)
    server.server_close()
    emulator.close()
    return 0


def state_tool(args):
    ns = load_namespace(args.state, args.provider)
    if args.command == "ls":
        for path, node in sorted(ns.walk(), key=lambda item: item[0]):
            if node["type"] == "dir":
                print("d %s" % path)
            else:
                print("f %s %d" % (path, node["size"]))
        return 0
    if args.command == "cat":
        sys.stdout.buffer.write(ns.read_file(args.path))
        return 0
    if args.command == "mkdir":
        ns.mkdir(args.path, parents=True)
    elif args.command == "put":
        with open(args.local, "rb") as src:
            ns.put_file(args.path, src.read())
    elif args.command == "rm":
        ns.remove(args.path)
    save_namespace(args.state, ns)
    return 0


def main(argv=None):
    parser = argparse.ArgumentParser(description="vsb cloud provider emulator (see the module docstring)")
    parser.add_argument("--state", required=True, help="state directory")
    parser.add_argument("--port", type=int, default=0)
    parser.add_argument("--bind", default="127.0.0.1")
    parser.add_argument("--script", help="fault script (JSON list)")
    parser.add_argument("--page-size", type=int, default=0)
    parser.add_argument("--yandex-async", choices=("auto", "always"), default="auto")
    parser.add_argument("--op-polls", type=int, default=0)
    parser.add_argument("--token-ttl", type=int, default=14400)
    parser.add_argument("--no-auth", action="store_true")
    parser.add_argument("--drain", type=float, default=10.0)
    parser.add_argument("--verbose", action="store_true")
    parser.add_argument("command", nargs="?", choices=("serve", "ls", "cat", "mkdir", "put", "rm"), default="serve")
    parser.add_argument("provider", nargs="?", choices=PROVIDERS)
    parser.add_argument("path", nargs="?")
    parser.add_argument("local", nargs="?")
    args = parser.parse_args(argv)

    if args.command == "serve":
        return serve(args)
    if args.provider is None or (args.command != "ls" and args.path is None) or \
            (args.command == "put" and args.local is None):
        parser.error("%s: missing arguments" % args.command)
    try:
        return state_tool(args)
    except (NamespaceError, OSError) as err:
        sys.stderr.write("error: %s\n" % err)
        return 1


if __name__ == "__main__":
    sys.exit(main())
